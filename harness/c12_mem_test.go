package harness

import (
	"fmt"
	"runtime"
	"sync"
	"testing"
	"time"

	"github.com/bool64/cache"
)

const c12mRule = "memory soft limits that are configured but NOT exceeded: the test process once had a heap peak (256 MiB allocated and dropped, so the heap obtained from the OS stays far above the heap in use); " +
	"HeapInUseSoftLimit is set between the heap in use and that high-water mark, or SysMemSoftLimit far above the memory obtained from the OS; 3 backends x 3 strategies x EvictFraction, 20-400 entries (fresh, recently expired, never expiring), 1-4 cleanup cycles (VerifCleanup hook); " +
	"oracle: while runtime.MemStats (sampled before and after every cycle) stays below the limit with a wide margin, no entry disappears and cache_evict stays 0; cases in which the margin is not there are counted as inconclusive; non-trivial = the margin held for every cycle"

var (
	heapSpikeOnce sync.Once
	heapSpikeSink [][]byte
)

// heapSpike makes sure the process has a heap high-water mark well above what it uses now.
func heapSpike() {
	heapSpikeOnce.Do(func() {
		for i := 0; i < 64; i++ {
			b := make([]byte, 4<<20)
			for j := 0; j < len(b); j += 4096 {
				b[j] = 1
			}

			heapSpikeSink = append(heapSpikeSink, b)
		}

		heapSpikeSink = nil

		runtime.GC()
		runtime.GC()
	})
}

// TestC12MemLimitNotExceeded: a memory soft limit that is not exceeded evicts nothing.
func TestC12MemLimitNotExceeded(t *testing.T) {
	heapSpike()

	runCheck(t, "C12", "C12MemLimitNotExceeded", c12mRule, func(c *Case) {
		kind := backendKinds[c.Pick("backend", len(backendKinds))]
		strategy := cache.EvictionStrategy(c.Pick("strategy", 3))
		frac := []float64{0, 0.1, 0.5, 1}[c.Pick("EvictFraction", 4)]
		which := c.Pick("limit", 3) // 0 heap in use, 1 sys, 2 both
		n := []int{20, 100, 400}[c.Pick("entries", 3)]
		cycles := c.Int("cycles", 1, 4)

		var m runtime.MemStats

		runtime.ReadMemStats(&m)

		cfg := cache.Config{
			Name: "mem", TimeToLive: time.Hour, ExpirationJitter: -1, EvictionStrategy: strategy, EvictFraction: frac,
			DeleteExpiredJobInterval: farFuture, DeleteExpiredAfter: 24 * time.Hour, ItemsCountReportInterval: farFuture,
		}

		tr := newCountTracker()
		cfg.Stats = tr

		// the limit lies between the heap in use and the heap obtained from the OS
		heapLimit := m.HeapInuse + (m.HeapSys-m.HeapInuse)/2
		gap := m.HeapSys > m.HeapInuse*2 && m.HeapSys-m.HeapInuse > 64<<20

		if which != 1 {
			cfg.HeapInUseSoftLimit = heapLimit
		}

		if which != 0 {
			cfg.SysMemSoftLimit = m.Sys * 4
		}

		c.Tracef("backend=%s strategy=%d EvictFraction=%v entries=%d cycles=%d; HeapInuse=%d HeapSys=%d Sys=%d; HeapInUseSoftLimit=%d SysMemSoftLimit=%d",
			kind, strategy, frac, n, cycles, m.HeapInuse, m.HeapSys, m.Sys, cfg.HeapInUseSoftLimit, cfg.SysMemSoftLimit)
		c.Class("backend=" + kind)

		if which != 1 && !gap {
			c.Class("inconclusive:no-gap-between-heap-in-use-and-heap-sys")

			return
		}

		be := newCaseBackend(c, kind, cfg)

		for i := 0; i < n; i++ {
			ttl := []time.Duration{0, time.Hour, -time.Minute}[i%3]
			ctx := ttlCtx(ttl)

			if i%7 == 0 && be.HasLoadStore() {
				// never expiring entries exist in finite-TTL caches through Store
				be.Store([]byte(fmt.Sprintf("mem-%04d", i)), "v")

				continue
			}

			_ = be.Write(ctx, []byte(fmt.Sprintf("mem-%04d", i)), "v")
			_ = be.Read(bg, []byte(fmt.Sprintf("mem-%04d", i%11)))
		}

		held := true

		for cy := 0; cy < cycles; cy++ {
			runtime.ReadMemStats(&m)
			before := m

			be.Cleanup()

			runtime.ReadMemStats(&m)

			for _, s := range []runtime.MemStats{before, m} {
				if (cfg.HeapInUseSoftLimit != 0 && s.HeapInuse*10 > cfg.HeapInUseSoftLimit*8) || (cfg.SysMemSoftLimit != 0 && s.Sys*2 > cfg.SysMemSoftLimit) {
					held = false
				}
			}

			if !held {
				c.Class("inconclusive:memory-use-came-close-to-the-limit")

				return
			}

			c.Assert(be.Len() == n, "evicted-without-breach", "cycle %d: %d of %d entries left although no soft limit is exceeded (HeapInuse %d <= HeapInUseSoftLimit %d, Sys %d <= SysMemSoftLimit %d; HeapSys %d)",
				cy+1, be.Len(), n, m.HeapInuse, cfg.HeapInUseSoftLimit, m.Sys, cfg.SysMemSoftLimit, m.HeapSys)
			c.Assert(tr.get("mem", cache.MetricEvict) == 0, "evict-metric", "cache_evict = %v although no soft limit is exceeded", tr.get("mem", cache.MetricEvict))
		}

		c.NonTrivial()
	})
}
