// Package dup holds a type whose short name "dup.T" coincides with that of another package.
package dup

// T is a value type (import path verif/harness/dupb/dup).
type T struct {
	A int
	B string
}
