package harness

import (
	"bytes"
	"context"
	"errors"
	"fmt"
	"testing"
	"time"

	"github.com/bool64/cache"
)

const c15mRule = "long labelling histories: one cache name with 1-2 caches (ShardedMap / SyncMap behind a fault wrapper), N in {130, 1100, 1500, 3000} keys labelled L (a tenth also M, some labelled repeatedly; keys of unusual shape - empty, one zero byte, a prefix of others, binary, long - labelled at the start, in the middle or near the end), a tenth as many unlabelled keys, " +
	"optionally a constructed xxhash64-colliding UNLABELLED partner written after a labelled key; InvalidateByLabels(L) under a context that means nothing for a delete (background, cancelled, SkipRead+TTL), optionally with the k-th Delete failing followed by a retry; " +
	"oracle: nil => every labelled key absent from every cache, every unlabelled key (the colliding partner included) still there, count == entries actually removed; failure => error returned, count == removed so far, the retry removes the rest; " +
	"non-trivial = more than 1280 AddLabels calls for the label, or a colliding partner, or a failure position"

// TestC15ManyKeys: label invalidation is complete and precise for labels carrying thousands of keys.
func TestC15ManyKeys(t *testing.T) {
	runCheck(t, "C15", "C15ManyKeys", c15mRule, func(c *Case) {
		n := []int{130, 1100, 1500, 3000}[c.Weighted("keys", 3, 2, 2, 1)]
		ncaches := c.Int("caches", 1, 2)
		repeat := c.Weighted("repeat-labelling", 2, 1) == 1
		collide1 := c.Weighted("colliding-partner", 2, 1) == 1
		ctxMode := c.Weighted("ctx", 2, 1, 1)
		failAt := -1

		if c.Weighted("failure", 2, 1) == 1 {
			failAt = c.Int("fail-at", 0, n*ncaches-1)
		}

		kinds := make([]string, ncaches)
		for i := range kinds {
			kinds[i] = []string{kindSharded, kindSync}[c.Pick("kind", 2)]
		}

		c.Tracef("%d labelled keys, caches %v, repeated labelling=%v, colliding partner=%v, ctx mode %d, failing delete #%d", n, kinds, repeat, collide1, ctxMode, failAt)

		if n > 1280 || collide1 || failAt >= 0 {
			c.NonTrivial()
		}

		// the index may be the one embedded in some other backend ("host") that shares it with these caches;
		// what happens to the host's own entries is no business of the labels of the other caches
		var host Backend

		idx := cache.NewInvalidationIndex()

		if c.Weighted("index-embedded-in-a-host-backend", 2, 1) == 1 {
			host = newCaseBackend(c, []string{kindSharded, kindSync}[c.Pick("host-kind", 2)], cache.Config{ExpirationJitter: -1, DeleteExpiredJobInterval: farFuture, DeleteExpiredAfter: farFuture, ItemsCountReportInterval: farFuture})
			idx = host.Index()
			_ = host.Write(bg, []byte("host-entry"), "h")
			c.Class("index-embedded-in-a-host-backend")
		}
		injErr := errors.New("injected delete failure")
		calls, failPos := 0, -1

		var caches []Backend

		for _, kind := range kinds {
			be := newCaseBackend(c, kind, cache.Config{ExpirationJitter: -1, DeleteExpiredJobInterval: farFuture, DeleteExpiredAfter: farFuture, ItemsCountReportInterval: farFuture})
			caches = append(caches, be)
			d := be.Deleter()

			// without a failure to inject the cache is registered as it is (no wrapper in between)
			if failAt < 0 {
				idx.AddCache("many", d)

				continue
			}

			idx.AddCache("many", deleterFunc(func(ctx context.Context, key []byte) error {
				calls++
				if calls-1 == failPos {
					return injErr
				}

				return d.Delete(ctx, key)
			}))
		}

		write := func(k []byte) {
			for _, be := range caches {
				_ = be.Write(bg, k, "v")
			}
		}

		labelled := map[string]bool{}
		unlabelled := map[string]bool{}

		// the labelled key that gets a colliding partner comes first (it is displaced, not the partner)
		base := bytes.Repeat([]byte("labelled"), 8)
		partner := collide(base, 2, 0x9E3779B97F4A7C15)

		if collide1 {
			write(base)
			idx.AddLabels("many", base, "L")
			labelled[string(base)] = true
		}

		// keys of unusual shape (empty, a single zero byte, a prefix of other keys, binary, long) labelled
		// somewhere in the middle of the long history
		specials := map[int][][]byte{}

		for _, sk := range [][]byte{{}, {0}, []byte("item-0000"), {0xff, 0xff}, bytes.Repeat([]byte("long-key."), 40)} {
			if c.Weighted("special-key", 1, 1) == 1 {
				at := []int{0, n / 2, n - 2}[c.Pick("special-at", 3)]
				specials[at] = append(specials[at], sk)
				c.Class("special-key-shapes-among-the-labelled")
			}
		}

		for i := 0; i < n; i++ {
			for _, sk := range specials[i] {
				write(sk)
				idx.AddLabels("many", sk, "L")
				labelled[string(sk)] = true
			}

			k := []byte(fmt.Sprintf("item-%05d", i))
			write(k)

			kk, poison := poisonKey(k)
			if i%10 == 0 {
				idx.AddLabels("many", kk, "L", "M")
			} else {
				idx.AddLabels("many", kk, "L")
			}

			poison()

			if repeat && i%7 == 0 {
				idx.AddLabels("many", k, "L")
			}

			labelled[string(k)] = true

			if i%10 == 3 {
				u := []byte(fmt.Sprintf("free-%05d", i))
				write(u)
				unlabelled[string(u)] = true
			}
		}

		if collide1 {
			write(partner) // written after its labelled twin: hash-indexed backends now hold the partner
			unlabelled[string(partner)] = true
		}

		present := func() map[string]bool {
			s := map[string]bool{}

			for i, be := range caches {
				_, _ = be.Walk(func(k []byte, _ interface{}, _ time.Time) error {
					s[fmt.Sprintf("%d/%s", i, k)] = true

					return nil
				})
			}

			return s
		}

		if host != nil && c.Bool("host-DeleteAll-before-invalidation") {
			host.DeleteAll(bg)
			c.Class("host-DeleteAll-before-invalidation")
		}

		ctx := context.Background()

		switch ctxMode {
		case 1:
			var cancel context.CancelFunc

			ctx, cancel = context.WithCancel(ctx)
			cancel()
			c.Class("ctx=cancelled")
		case 2:
			ctx = cache.WithTTL(cache.WithSkipRead(ctx), time.Minute, false)
			c.Class("ctx=skipread+ttl")
		}

		invalidate := func(fail int) (int, error, int) {
			before := present()
			calls, failPos = 0, fail

			var (
				cnt      int
				err      error
				panicked interface{}
			)

			func() {
				defer func() { panicked = recover() }()

				cnt, err = idx.InvalidateByLabels(ctx, "L")
			}()

			c.Assert(panicked == nil, "invalidate-panic", "InvalidateByLabels panicked: %v", panicked)

			after := present()
			removed := 0

			for k := range before {
				if !after[k] {
					removed++
				}
			}

			c.Tracef("InvalidateByLabels(L) with delete #%d failing = (%d, %v); %d Delete calls, %d entries removed", fail, cnt, err, calls, removed)
			c.Assert(cnt == removed, "count", "InvalidateByLabels returned count %d, %d entries were actually removed", cnt, removed)

			for i := range caches {
				for u := range unlabelled {
					c.Assert(after[fmt.Sprintf("%d/%s", i, u)] || !before[fmt.Sprintf("%d/%s", i, u)], "unlabelled-key-removed",
						"key %s in cache #%d (%s) carries no label but was removed", keyName([]byte(u)), i, kinds[i])
				}
			}

			return cnt, err, calls
		}

		if failAt >= 0 {
			_, err, issued := invalidate(failAt)
			if failAt < issued {
				c.Assert(errors.Is(err, injErr), "error-not-returned", "delete #%d failed but InvalidateByLabels returned %v", failAt, err)
				c.Class("failure-then-retry")
			}
		}

		_, err, _ := invalidate(-1)
		c.Assert(err == nil, "unexpected-error", "fault-free InvalidateByLabels returned %v", err)

		final := present()

		for i := range caches {
			left := 0

			for k := range labelled {
				if final[fmt.Sprintf("%d/%s", i, k)] {
					left++

					if left == 1 {
						c.Tracef("labelled key %s is still in cache #%d", keyName([]byte(k)), i)
					}
				}
			}

			c.Assert(left == 0, "labelled-key-survived", "InvalidateByLabels(L) returned nil but %d of %d labelled keys are still in cache #%d (%s)", left, len(labelled), i, kinds[i])
		}
	})
}

type deleterFunc func(ctx context.Context, key []byte) error

func (f deleterFunc) Delete(ctx context.Context, key []byte) error { return f(ctx, key) }
