package harness

import (
	"bytes"
	"context"
	"strings"
	"testing"
	"time"
)

const c04Rule = "C02's schedules, configurations and fault injection plus post-return caller actions as schedulable steps (overwrite the key buffer with 0xAA or with another live key, cancel the context), before or after the background build resumes; " +
	"oracle at scheduler quiescence (nothing parked, every builder returned): every Get has returned, VerifKeyLocks()==0, the backend holds only the scenario's keys each with the last value written for it, and after Delete(key)+clearing the failure cache a follow-up Get invokes the builder and returns its token; " +
	"non-trivial = a background build ran in a case with post-return actions, or a fault was injected, or a Get returned an error while a waiter was registered"

// TestC04Completion: Get always completes and key locks are always released.
func TestC04Completion(t *testing.T) {
	runCheck(t, "C04", "C04Completion", c04Rule, func(c *Case) {
		propFailoverSched(c, scenOpts{maxKeys: 3, minGets: 1, maxGets: 6, skipRead: true, clock: 3, external: 2, prefail: true, postActions: true, faults: 2, failPct: 40, errKinds: true},
			func(w *world, sc *scenario, complete bool) {
				w.checkQuiescence(sc, complete)

				errSeen := false
				for _, g := range w.log.gets {
					if g.done && g.err != nil {
						errSeen = true
					}
				}

				if c.classes["background-build"] || c.classes["fault-read"] || c.classes["fault-write"] || (errSeen && c.classes["waiter-seen(log)"]) {
					c.NonTrivial()
				}
			})
	})
}

// checkQuiescenceLossy is checkQuiescence for scenarios with hash-colliding keys: an entry may be
// displaced by a write to the colliding key, so "backend holds the last write" is not asserted.
func (w *world) checkQuiescenceLossy(sc *scenario, complete bool) {
	w.lossy = true
	w.checkQuiescence(sc, complete)
}

// checkQuiescence is the C04 oracle.
func (w *world) checkQuiescence(sc *scenario, complete bool) {
	c := w.c
	if !complete {
		return
	}

	for _, g := range w.log.gets {
		c.Assert(g.done, "stuck-get", "%s Get(%s) has not returned although nothing is parked and every builder returned", g.task, keyName([]byte(g.key)))
	}

	c.Assert(w.fe.KeyLocks() == 0, "leaked-key-lock", "%d key lock(s) still held after all Gets and background builds finished", w.fe.KeyLocks())

	// every result has provenance (a Get that waited on the wrong lock returns somebody else's value)
	w.checkProvenance()

	// a later Get observes the result of the last completed build: if the build that completed last
	// for a key succeeded and its store succeeded, that value is what the backend holds at quiescence
	// (nobody may store an older value after it; an owner that read before the store and re-stores a
	// stale value goes on to build itself, so it is then the last build)
	lastBuild := map[string]*buildRec{}

	for _, b := range w.log.builds {
		if b.getIdx >= 0 && b.exitStep >= 0 && (lastBuild[b.key] == nil || b.exitStep > lastBuild[b.key].exitStep) {
			lastBuild[b.key] = b
		}
	}

	if !c.classes["external-delete"] && !w.lossy {
		for key, b := range lastBuild {
			if b.err != nil {
				continue
			}

			stored, storeStep := false, -1

			for _, r := range w.log.be {
				if r.op == "write" && r.err == nil && r.key == key && r.task == b.task && r.val == interface{}(b.tok) {
					stored, storeStep = true, r.step
				}
			}

			if !stored {
				continue
			}

			// Without SyncRead a Get that read the old value BEFORE that store may become the owner after it,
			// re-store the stale value (UpdateTTL) and then not build at all because a failure is cached
			// (documented weakness that SyncRead exists for): the stale value is what remains.
			staleRestore := false

			if !w.cfg.syncRead {
				for _, r2 := range w.log.be {
					if r2.op != "write" || r2.err != nil || r2.key != key || r2.step <= storeStep || r2.task == b.task || r2.val == interface{}(b.tok) {
						continue
					}

					owner := strings.SplitN(r2.task, ".", 2)[0]
					ownBuild := false

					for _, b2 := range w.log.builds {
						if interface{}(b2.tok) == r2.val && strings.SplitN(b2.task, ".", 2)[0] == owner {
							ownBuild = true // the (late) final store of the owner's own build is not a stale re-store
						}
					}

					if ownBuild {
						continue
					}

					for _, r1 := range w.log.be {
						if r1.op == "read" && r1.key == key && r1.step < storeStep && strings.SplitN(r1.task, ".", 2)[0] == owner {
							staleRestore = true
						}
					}
				}
			}

			if staleRestore {
				c.Class("stale-restored-after-newer-build")

				continue
			}

			var held interface{}

			_, _ = w.be.Walk(func(k []byte, v interface{}, _ time.Time) error {
				if string(k) == key {
					held = v
				}

				return nil
			})
			c.Assert(valEq(w.be.Generic(), held, b.tok), "last-build-not-observed", "the last completed build of %s stored %v, but the backend holds %v at quiescence", keyName([]byte(key)), b.tok, held)
		}
	}

	// Backend content: only scenario keys, each holding the value of the last successful write.
	last := map[string]interface{}{}
	for k := 0; k < sc.nkeys; k++ {
		if sc.states[k] != ksAbsent {
			last[string(sc.key(k))] = initToken(sc.key(k))
		}
	}

	for _, r := range w.log.be {
		if r.op == "write" && r.err == nil {
			last[r.key] = r.val
		}
	}

	valid := map[string]bool{}
	for k := 0; k < sc.nkeys; k++ {
		valid[string(sc.key(k))] = true
	}

	extDelete := c.classes["external-delete"]

	_, _ = w.be.Walk(func(k []byte, v interface{}, _ time.Time) error {
		if bytes.HasPrefix(k, []byte("neighbour-")) && c.classes["external-cleanup-and-neighbour-writes"] {
			// written by the harness itself (external action): must hold what was written there
			tk, ok := tokenKey(v)
			c.Assert(ok && tk == string(k), "value-under-wrong-key", "backend holds %v under key %s, which was written directly with its own token", v, keyName(k))

			return nil
		}

		c.Assert(valid[string(k)], "foreign-key-written", "backend holds key %s which no Get was called with", keyName(k))

		if tk, ok := tokenKey(v); ok {
			c.Assert(tk == string(k), "value-under-wrong-key", "backend holds %v under key %s", v, keyName(k))
		}

		if !extDelete && !w.lossy {
			c.Assert(valEq(w.be.Generic(), v, last[string(k)]), "backend-not-last-write", "backend holds %v under %s, last completed write was %v", v, keyName(k), last[string(k)])
		}

		return nil
	})

	// Black-box: the key can be built again.
	for k := 0; k < sc.nkeys; k++ {
		key := append([]byte{}, sc.key(k)...)
		_ = w.be.Delete(bg, key)
		w.fe.ClearFailures()

		invoked := 0
		tok := tokenFor(key, "followup", k)
		v, err := w.fe.Get(context.Background(), key, func(context.Context) (string, error) {
			invoked++

			return tok, nil
		})
		c.Tracef("follow-up Get(%s) = %v, %v (builder invoked %d times)", keyName(key), v, err, invoked)
		c.Assert(invoked == 1 && err == nil && valEq(w.be.Generic(), v, tok), "followup-no-build",
			"after quiescence, Delete(%s) and clearing failures, Get returned (%v, %v) with %d builder invocations; want a fresh build", keyName(key), v, err, invoked)
	}

	c.Assert(w.fe.KeyLocks() == 0, "leaked-key-lock", "%d key lock(s) held after follow-up Gets", w.fe.KeyLocks())
}
