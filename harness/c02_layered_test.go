package harness

import (
	"context"
	"errors"
	"fmt"
	"strings"
	"sync"
	"testing"
	"testing/synctest"
	"time"

	"github.com/bool64/cache"
)

const c02lRule = "layered caches: two frontends (outer, inner; 5 variants x SyncUpdate x SyncRead x FailHard x MaxStaleness each) over their own backends hold the SAME key bytes; the builder of an outer Get calls inner.Get for the same key with its builder context as it is or derived from it (own TTL cell, own value), " +
	"1-5 Gets (outer or directly on inner) on 1-2 keys initially absent / fresh / stale / too stale per instance, every builder parks at a gate and the generated controller releases gates, starts Gets and advances the fake clock; " +
	"oracles per instance: builds of a key never overlap (C01); every result is a token of a finished build of that instance and key, its stored initial value, or an error a builder of that instance and key produced (C02); all Gets return and no key lock remains (C04); " +
	"an inner builder sees the value and TTL of the context its Get was called with and a successful inner build is stored with that TTL (C06); non-trivial = a nested Get met a key of the inner instance that was locked or stale"

type layInst struct {
	name     string
	w        *world
	mu       sync.Mutex
	inflight map[string]int
	toks     map[string]map[string]bool // key -> tokens of finished successful builds
	errs     map[string][]error         // key -> errors produced by builders
	nbuilds  int
}

type layGate struct {
	name string
	ch   chan struct{}
}

type layGet struct {
	name    string
	inst    *layInst
	key     []byte
	val     interface{}
	err     error
	done    bool
	callCtx context.Context
}

type layStoreCheck struct {
	inst *layInst
	key  []byte
	tok  string
	ttl  time.Duration
	at   time.Time
	who  string
}

func drawLayCfg(c *Case, pfx string) foCfg {
	return foCfg{
		variant:         c.Pick(pfx+"variant", nVariants),
		syncUpdate:      c.Weighted(pfx+"SyncUpdate", 3, 1) == 1,
		syncRead:        c.Bool(pfx + "SyncRead"),
		failHard:        c.Weighted(pfx+"FailHard", 3, 1) == 1,
		maxStaleness:    []time.Duration{0, time.Hour}[c.Pick(pfx+"MaxStaleness", 2)],
		failedUpdateTTL: []time.Duration{-1, 0}[c.Weighted(pfx+"FailedUpdateTTL", 2, 1)],
		backendTTL:      time.Hour,
		updateTTL:       time.Minute,
	}
}

// TestC02Layered: a builder that reads through another Failover instance holding the same keys.
func TestC02Layered(t *testing.T) {
	runCheck(t, "C02", "C02Layered", c02lRule, func(c *Case) {
		cfgs := []foCfg{drawLayCfg(c, "outer-"), drawLayCfg(c, "inner-")}
		keys := [][]byte{[]byte("k1"), []byte("k2")}
		nkeys := c.Int("nkeys", 1, 2)

		var states [2][2]int

		for i := 0; i < 2; i++ {
			for k := 0; k < nkeys; k++ {
				// stale entries are the interesting ones: background updates on both levels
				states[i][k] = c.Weighted(fmt.Sprintf("state-%d", i), 2, 1, 3, 1)
				if states[i][k] == ksStaleOld && cfgs[i].maxStaleness == 0 {
					states[i][k] = ksStaleRecent
				}
			}
		}

		c.Class("outer=" + variantNames[cfgs[0].variant])
		c.Class("inner=" + variantNames[cfgs[1].variant])
		c.Tracef("outer: %s", cfgs[0])
		c.Tracef("inner: %s", cfgs[1])

		for k := 0; k < nkeys; k++ {
			c.Tracef("key %s initially outer=%s inner=%s", keyName(keys[k]), ksNames[states[0][k]], ksNames[states[1][k]])
		}

		c.Bubble(func() {
			insts := []*layInst{}

			for i, nm := range []string{"outer", "inner"} {
				w := newWorld(c, cfgs[i])
				w.name = nm
				insts = append(insts, &layInst{name: nm, w: w, inflight: map[string]int{}, toks: map[string]map[string]bool{}, errs: map[string][]error{}})
			}

			initTok := func(in *layInst, key []byte) string { return in.name + "-" + initToken(key) }

			for i, in := range insts {
				for k := 0; k < nkeys; k++ {
					switch states[i][k] {
					case ksFresh:
						_ = in.w.be.Write(ttlCtx(100*time.Hour), keys[k], initTok(in, keys[k]))
					case ksStaleRecent:
						_ = in.w.be.Write(ttlCtx(2*time.Hour-time.Minute), keys[k], initTok(in, keys[k]))
					case ksStaleOld:
						_ = in.w.be.Write(ttlCtx(30*time.Minute), keys[k], initTok(in, keys[k]))
					}
				}
			}

			time.Sleep(2 * time.Hour)

			for _, in := range insts {
				in.w.attach()
			}

			outer, inner := insts[0], insts[1]

			var (
				mu       sync.Mutex
				parked   []*layGate
				gets     []*layGet
				problems []string
				checks   []layStoreCheck
				closed   bool
			)

			c.OnClose(0, func() {
				mu.Lock()
				closed = true
				ps := parked
				parked = nil
				mu.Unlock()

				for _, g := range ps {
					close(g.ch)
				}
			})

			park := func(name string) {
				g := &layGate{name: name, ch: make(chan struct{})}

				mu.Lock()
				if closed {
					mu.Unlock()

					return
				}

				parked = append(parked, g)
				mu.Unlock()
				<-g.ch
			}

			problem := func(format string, args ...interface{}) {
				mu.Lock()
				problems = append(problems, fmt.Sprintf(format, args...))
				mu.Unlock()
			}

			// builder of `in` for key, run on behalf of the Get `who` that was called with callCtx
			var mkBuilder func(in *layInst, key []byte, who string, callCtx context.Context, fails bool, nested func(ctx context.Context)) func(ctx context.Context) (string, error)

			mkBuilder = func(in *layInst, key []byte, who string, callCtx context.Context, fails bool, nested func(ctx context.Context)) func(ctx context.Context) (string, error) {
				return func(ctx context.Context) (string, error) {
					ks := string(key)

					in.mu.Lock()
					in.inflight[ks]++
					in.nbuilds++
					n := in.nbuilds

					if in.inflight[ks] > 1 {
						problem("overlap: %s builder for key %s entered for %s while another build of the key is in flight on that instance", in.name, keyName(key), who)
					}
					in.mu.Unlock()

					if in == inner {
						if got, want := ctx.Value(userKey{}), callCtx.Value(userKey{}); got != want {
							problem("ctx-value: inner builder for %s (%s) sees user value %v, the context its Get was called with carries %v", keyName(key), who, got, want)
						}

						if got, want := cache.TTL(ctx), cache.TTL(callCtx); got != want {
							problem("ctx-ttl: inner builder for %s (%s) sees TTL %v, the context its Get was called with carries %v", keyName(key), who, got, want)
						}
					}

					park(in.name + "-build(" + who + ")")

					if nested != nil {
						nested(ctx)
					}

					var (
						tok string
						err error
					)

					in.mu.Lock()
					in.inflight[ks]--

					if fails {
						err = &buildErr{key: in.name + "/" + ks, task: who, n: n}
						in.errs[ks] = append(in.errs[ks], err)
					} else {
						tok = tokenFor(key, in.name+"."+who, n)

						if in.toks[ks] == nil {
							in.toks[ks] = map[string]bool{}
						}

						in.toks[ks][tok] = true

						ttl := cache.TTL(callCtx)
						if ttl == 0 {
							ttl = time.Hour
						}

						mu.Lock()
						checks = append(checks, layStoreCheck{inst: in, key: key, tok: tok, ttl: ttl, at: time.Now(), who: who})
						mu.Unlock()
					}
					in.mu.Unlock()

					return tok, err
				}
			}

			runGet := func(g *layGet, build func(ctx context.Context) (string, error)) {
				mu.Lock()
				gets = append(gets, g)
				mu.Unlock()

				v, err := g.inst.w.fe.Get(g.callCtx, append([]byte{}, g.key...), build)

				mu.Lock()
				g.val, g.err, g.done = v, err, true
				mu.Unlock()

				g.inst.mu.Lock()
				defer g.inst.mu.Unlock()

				ks := string(g.key)

				if err == nil {
					s, _ := v.(string)
					if !(g.inst.toks[ks][s] || s == initTok(g.inst, g.key)) {
						sig := "unfinished-build-value"
						if s == "" {
							sig = "zero-value-nil-error"
						}

						problem("%s: %s Get(%s) on %s returned (%#v, nil): not its stored value nor the result of a finished build of that key on that instance", sig, g.name, keyName(g.key), g.inst.name, v)
					}

					return
				}

				for _, e := range g.inst.errs[ks] {
					if errors.Is(err, e) {
						return
					}
				}

				problem("foreign-error: %s Get(%s) on %s returned error %q which no builder of that instance for the key produced", g.name, keyName(g.key), g.inst.name, fmt.Sprint(err))
			}

			ttlMenu := []time.Duration{0, 30 * time.Minute, 3 * time.Hour}
			ngets := 0
			nontriv := false

			verifyStores := func() {
				mu.Lock()
				cs := checks
				checks = nil
				mu.Unlock()

				for _, sc := range cs {
					var (
						found bool
						val   interface{}
						exp   time.Time
					)

					_, _ = sc.inst.w.be.Walk(func(key []byte, v interface{}, e time.Time) error {
						if string(key) == string(sc.key) {
							found, val, exp = true, v, e
						}

						return nil
					})

					if !found || gstr(val) != sc.tok {
						// overwritten or not stored (another instance's business is checked elsewhere): only TTL is asserted here
						continue
					}

					c.Class("stored-ttl-checked:" + sc.inst.name)

					if want := sc.at.Add(sc.ttl); !exp.Equal(want) {
						c.Failf("store-ttl", "%s build for %s (%s) finished at %v and was stored expiring at %v (TTL %v), want TTL %v carried by the context of that Get",
							sc.inst.name, keyName(sc.key), sc.who, sc.at.UnixNano(), exp.UnixNano(), exp.Sub(sc.at), sc.ttl)
					}
				}
			}

			steps := c.Int("steps", 3, 14)

			for st := 0; st < steps; st++ {
				synctest.Wait()
				verifyStores()

				mu.Lock()
				np := len(parked)
				mu.Unlock()

				wStart := 3
				if ngets >= 5 {
					wStart = 0
				}

				wRel := 0
				if np > 0 {
					wRel = 4
				}

				if wStart == 0 && wRel == 0 {
					break
				}

				switch c.Weighted("action", wStart, wStart, wRel, 1) {
				case 0: // outer Get whose builder reads through the inner instance
					k := c.Pick("key", nkeys)
					ttl := ttlMenu[c.Pick("outer-ttl", 3)]
					derive := c.Pick("derive", 4) // 0 builder ctx as is, 1 own TTL cell, 2 own value, 3 both
					nttl := ttlMenu[1+c.Pick("nested-ttl", 2)]
					ofails := c.Weighted("outer-fails", 4, 1) == 1
					ifails := c.Weighted("inner-fails", 4, 1) == 1
					name := fmt.Sprintf("g%d", ngets)
					ngets++

					ctx := context.WithValue(ttlCtx(ttl), userKey{}, "user-"+name)
					g := &layGet{name: name, inst: outer, key: keys[k], callCtx: ctx}

					c.Tracef("step %d: %s = outer.Get(%s) ttl=%v; its builder calls inner.Get(%s) derive=%d nested-ttl=%v outer-fails=%v inner-fails=%v", st, name, keyName(keys[k]), ttl, keyName(keys[k]), derive, nttl, ofails, ifails)

					nested := func(bctx context.Context) {
						nctx := bctx
						if derive&1 != 0 {
							nctx = cache.WithTTL(nctx, nttl, false)
						}

						if derive&2 != 0 {
							nctx = context.WithValue(nctx, userKey{}, "nested-of-"+name)
						}

						inner.mu.Lock()
						busy := inner.inflight[string(keys[k])] > 0
						inner.mu.Unlock()

						if busy {
							c.Class("nested-get-meets-locked-inner-key")
							nontriv = true
						}

						ng := &layGet{name: name + ".nested", inst: inner, key: keys[k], callCtx: nctx}
						runGet(ng, mkBuilder(inner, keys[k], ng.name, nctx, ifails, nil))
					}

					go runGet(g, mkBuilder(outer, keys[k], name, ctx, ofails, nested))
				case 1: // direct Get on the inner instance
					k := c.Pick("key", nkeys)
					ttl := ttlMenu[c.Pick("inner-ttl", 3)]
					fails := c.Weighted("inner-fails", 4, 1) == 1
					name := fmt.Sprintf("g%d", ngets)
					ngets++

					ctx := context.WithValue(ttlCtx(ttl), userKey{}, "user-"+name)
					g := &layGet{name: name, inst: inner, key: keys[k], callCtx: ctx}

					c.Tracef("step %d: %s = inner.Get(%s) ttl=%v fails=%v", st, name, keyName(keys[k]), ttl, fails)

					go runGet(g, mkBuilder(inner, keys[k], name, ctx, fails, nil))
				case 2:
					i := c.Pick("release", np)

					mu.Lock()
					g := parked[i]
					parked = append(parked[:i:i], parked[i+1:]...)
					mu.Unlock()

					c.Tracef("step %d: release %s", st, g.name)
					close(g.ch)
				case 3:
					d := []time.Duration{time.Second, 2 * time.Minute, 4 * time.Hour}[c.Pick("clock", 3)]
					c.Tracef("step %d: clock +%v", st, d)
					time.Sleep(d)
				}
			}

			// drain: release whatever parks, oldest first
			for i := 0; i < 100; i++ {
				synctest.Wait()
				verifyStores()

				mu.Lock()
				if len(parked) == 0 {
					mu.Unlock()

					break
				}

				g := parked[0]
				parked = parked[1:]
				mu.Unlock()
				close(g.ch)
			}

			synctest.Wait()
			verifyStores()

			for k := 0; k < nkeys; k++ {
				if states[1][k] == ksStaleRecent || states[1][k] == ksStaleOld {
					for _, g := range gets {
						if g.inst == inner && string(g.key) == string(keys[k]) && strings.HasSuffix(g.name, ".nested") {
							c.Class("nested-get-on-stale-inner-key")
							nontriv = true
						}
					}
				}
			}

			if nontriv {
				c.NonTrivial()
			}

			mu.Lock()
			ps := append([]string{}, problems...)
			gs := append([]*layGet{}, gets...)
			mu.Unlock()

			for _, g := range gs {
				c.Tracef("%s on %s key %s: done=%v (%v, %v)", g.name, g.inst.name, keyName(g.key), g.done, g.val, g.err)
			}

			for _, p := range ps {
				sig := p
				for i := 0; i < len(p); i++ {
					if p[i] == ':' {
						sig = p[:i]

						break
					}
				}

				c.Failf(sig, "%s", p)
			}

			for _, g := range gs {
				c.Assert(g.done, "stuck-get", "%s Get(%s) on %s has not returned although every builder was released", g.name, keyName(g.key), g.inst.name)
			}

			for _, in := range insts {
				c.Assert(in.w.fe.KeyLocks() == 0, "leaked-key-lock", "%d key lock(s) still held on %s", in.w.fe.KeyLocks(), in.name)
			}
		})
	})
}
