package harness

import "sort"

func sortInt64(s []int64) { sort.Slice(s, func(i, j int) bool { return s[i] < s[j] }) }
