package harness

import (
	"sort"
	"time"
)

func sortInt64(s []int64) { sort.Slice(s, func(i, j int) bool { return s[i] < s[j] }) }

func minutes(n int) time.Duration { return time.Duration(n) * time.Minute }
