package harness

import (
	"bytes"
	"errors"
	"testing"
	"time"

	"github.com/bool64/cache"
)

const c10Rule = "per case: backend x config TimeToLive {default, Unlimited, log-uniform 1ns..146y} x ExpirationJitter {off, default, (0,1]} and 1-4 writes with " +
	"context TTL {none, +/- log-uniform 1ns..146y}; expiry read back through Walk and compared with the closed-form instant/band, then the fake clock is moved " +
	"to E-1ns (fresh), exactly E (either) and E+1ns (ErrExpired, ExpiredAt == E); non-trivial = jitter enabled, or a context TTL overriding a different config TTL, or a negative TTL"

// TestC10ExpiryBounds: every entry's expiry lies within the documented TTL bounds.
func TestC10ExpiryBounds(t *testing.T) {
	runCheck(t, "C10", "C10ExpiryBounds", c10Rule, propExpiryBounds)
}

// safeSleep advances the fake clock unless that would take it past year ~2255 (the runtime's
// timers overflow int64 nanoseconds there; observed as a runtime fatal error inside a bubble).
func safeSleep(d time.Duration) bool {
	if d < 0 || float64(time.Now().UnixNano())+float64(d) > 9.0e18 {
		return false
	}

	time.Sleep(d)

	return true
}

// drawDuration draws a log-uniform duration in [1ns, 2^62 ns) (~146 years).
func drawDuration(c *Case, label string) time.Duration {
	e := c.Int(label+".exp", 0, 61)
	if e == 0 {
		return 1
	}

	return time.Duration(int64(1)<<e + int64(c.Int(label+".mant", 0, int(int64(1)<<e-1))))
}

func propExpiryBounds(c *Case) {
	kind := backendKinds[c.Pick("backend", len(backendKinds))]

	var cfgTTL time.Duration

	switch c.Weighted("cfgTTL", 2, 2, 5, 1) {
	case 0:
		cfgTTL = 0
	case 1:
		cfgTTL = cache.UnlimitedTTL
	case 3:
		// only -1ns means "unlimited"; any other negative configured TTL yields entries born expired
		cfgTTL = -drawDuration(c, "cfgTTL")
		if cfgTTL == cache.UnlimitedTTL {
			cfgTTL = -2
		}

		c.Class("negative-config-ttl")
		c.NonTrivial()
	default:
		cfgTTL = drawDuration(c, "cfgTTL")
	}

	var jit float64

	switch c.Weighted("jitter", 3, 2, 5) {
	case 0:
		jit = -1
	case 1:
		jit = 0
	default:
		jit = float64(c.Int("jitter.permille", 1, 1000)) / 1000
	}

	c.Class("backend=" + kind)
	c.Tracef("backend=%s TimeToLive=%v ExpirationJitter=%v", kind, cfgTTL, jit)

	c.Bubble(func() {
		c.SeedJitter()

		cfg := cache.Config{
			TimeToLive: cfgTTL, ExpirationJitter: jit, EvictionStrategy: cache.EvictionStrategy(c.Weighted("EvictionStrategy", 2, 1, 1)),
			// the janitor never runs here; how long ago an entry expired must not change what Read reports
			DeleteExpiredJobInterval: 2 * farFuture, DeleteExpiredAfter: []time.Duration{2 * farFuture, 0, time.Second}[c.Pick("DeleteExpiredAfter", 3)],
		}
		be := newCaseBackend(c, kind, cfg)
		ref := newRefMap(cfgTTL, jit)
		n := c.Int("writes", 1, 4)

		for i := 0; i < n; i++ {
			key := baseKeys[c.Pick("key", len(baseKeys))]

			var ctxTTL time.Duration

			switch c.Weighted("ctxTTL", 3, 4, 3) {
			case 1:
				ctxTTL = drawDuration(c, "ctxTTL")
			case 2:
				ctxTTL = -drawDuration(c, "ctxTTL")
				c.Class("negative-ttl")
				c.NonTrivial()
			}

			if ref.jitter > 0 {
				c.Class("jitter-on")
				c.NonTrivial()
			}

			if eff, ok := ref.effectiveTTL(0); ctxTTL != 0 && (!ok || eff != ctxTTL) {
				c.Class("ctx-overrides-config")
				c.NonTrivial()
			}

			val := "v" + string(rune('0'+i))
			t0 := time.Now()

			// Keep every instant representable in int64 unix nanoseconds (year < 2262).
			if eff, ok := ref.effectiveTTL(ctxTTL); ok && float64(t0.UnixNano())+1.6*float64(eff) > 9.0e18 {
				c.Class("clock-budget-exhausted")

				return
			}
			k, poison := poisonKey(key)
			wctx := ttlCtx(ctxTTL)

			// an explicit zero TTL inside a context that already carries one means "default" again
			if ctxTTL == 0 && c.Weighted("zero-inside-ttl-ctx", 3, 1) == 1 {
				wctx = cache.WithTTL(cache.WithTTL(bg, drawDuration(c, "outerTTL"), false), 0, false)
				c.Class("explicit-zero-ttl-inside-ttl-context")
			}

			var err error

			// Store is Write with the default TTL
			if ctxTTL == 0 && wctx == bg && be.HasLoadStore() && c.Weighted("via-Store", 2, 1) == 1 {
				be.Store(k, val)
				c.Class("written-via-Store")
			} else {
				err = be.Write(wctx, k, val)
			}

			poison()
			c.Assert(err == nil, "write-error", "Write returned %v", err)

			lo, hi, never := ref.band(t0, ctxTTL)

			var (
				e     int64
				found bool
			)

			_, _ = be.Walk(func(wk []byte, _ interface{}, exp time.Time) error {
				if string(wk) == string(key) {
					found = true
					e = exp.UnixNano()
				}

				return nil
			})
			c.Tracef("t=%d Write(%s, ctxTTL=%v): Walk ExpireAt=%d (offset %d) permitted [%d, %d] never=%v",
				t0.UnixNano(), keyName(key), ctxTTL, e, e-t0.UnixNano(), lo-t0.UnixNano(), hi-t0.UnixNano(), never)
			c.Assert(found, "walk-missing", "written key %s not reported by Walk", keyName(key))

			if never {
				c.Class("never-expires")
				c.Assert(e == 0, "unlimited-expiry", "UnlimitedTTL without context TTL: entry got expiry %d, want none", e)
				if !safeSleep(100 * 365 * 24 * time.Hour) {
					safeSleep(time.Hour)
				}

				r := be.Read(bg, key)
				c.Assert(r.Err == nil && valEq(be.Generic(), r.Val, val), "unlimited-read",
					"never-expiring entry read after 100 years = (%v, %v)", r.Val, r.Err)

				continue
			}

			if lo == hi {
				c.Assert(e == lo, "exact-expiry", "jitter disabled: expiry offset %d, want exactly TTL %d",
					e-t0.UnixNano(), lo-t0.UnixNano())
			} else {
				c.Assert(e >= lo && e <= hi, "jitter-band", "expiry offset %d outside [T(1-J/2), T(1+J/2)] = [%d, %d]",
					e-t0.UnixNano(), lo-t0.UnixNano(), hi-t0.UnixNano())
			}

			// the entry may reach its reader through a dump restored into a fresh instance: same expiry
			if c.Weighted("read-from-restored-copy", 4, 1) == 1 {
				var buf bytes.Buffer

				_, derr := be.Dump(&buf)
				be2 := newCaseBackend(c, kind, cfg)
				_, rerr := be2.Restore(&buf)
				c.Assert(derr == nil && rerr == nil, "dump-restore-error", "Dump/Restore = %v / %v", derr, rerr)

				be = be2
				c.Class("read-from-restored-copy")
			}

			now := time.Now().UnixNano()
			if e >= now {
				if e > now {
					r := be.Read(bg, key)
					c.Assert(r.Err == nil && valEq(be.Generic(), r.Val, val), "read-before-expiry",
						"read at write time = (%v, %v), entry expires at +%d", r.Val, r.Err, e-now)
				}

				// one nanosecond before the instant the entry is still fresh
				if e-now > 1 {
					if !safeSleep(time.Duration(e - now - 1)) {
						c.Class("clock-budget-exhausted")

						return
					}

					now = time.Now().UnixNano()

					r := be.Read(bg, key)
					c.Assert(r.Err == nil && valEq(be.Generic(), r.Val, val), "read-before-expiry",
						"read 1ns before the expiry instant = (%v, %v), want the value", r.Val, r.Err)
				}

				if !safeSleep(time.Duration(e - now)) {
					c.Class("clock-budget-exhausted")

					return
				}

				// exactly at the expiry instant either outcome is allowed ("before ... after")
				r := be.Read(bg, key)
				okAt := (r.Err == nil && valEq(be.Generic(), r.Val, val)) || (r.Expired && r.ExpAt.UnixNano() == e && valEq(be.Generic(), r.ExpVal, val))
				c.Assert(okAt, "read-at-expiry", "read exactly at the expiry instant = (%v, %v), want the value or ErrExpired carrying it", r.Val, r.Err)

				time.Sleep(time.Nanosecond)
			} else {
				c.Class("born-expired")
			}

			r := be.Read(bg, key)
			c.Assert(errors.Is(r.Err, cache.ErrExpired) && r.Expired, "read-after-expiry",
				"read 1ns after the expiry instant = (%v, %v), want ErrExpired", r.Val, r.Err)
			c.Assert(r.ExpAt.UnixNano() == e, "expired-at", "ExpiredAt = %d, Walk reported %d", r.ExpAt.UnixNano(), e)
			c.Assert(valEq(be.Generic(), r.ExpVal, val), "expired-value", "expired item carries %v, want %v", r.ExpVal, val)
		}
	})
}
