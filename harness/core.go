package harness

import (
	"encoding/json"
	"fmt"
	"hash/fnv"
	"math/rand"
	"os"
	"path/filepath"
	"runtime/debug"
	"sort"
	"strings"
	"sync"
	"sync/atomic"
	"testing"
	"testing/synctest"

	"pgregory.net/rapid"
)

// ---------------------------------------------------------------------------------------------
// Case: one generated case of one check.

type failure struct {
	Sig string `json:"sig"`
	Msg string `json:"msg"`
}

type (
	caseAbort struct{} // known finding hit: abandon this case, keep searching
	caseFail  struct{} // failure recorded in Case.fail
)

// Case carries the chooser, the recorded choices and the evidence of one generated case.
type Case struct {
	Prop  string
	Check string

	ch      Chooser
	rt      *rapid.T
	tt      *testing.T
	Choices []int
	Labels  []string // label of every recorded choice (replay files carry them to detect generator drift)
	trace   []string
	classes map[string]bool
	nontriv bool
	fail    *failure
	known   []string

	closers [2][]func()
}

func newCase(prop, check string, ch Chooser, tt *testing.T, rt *rapid.T) *Case {
	return &Case{Prop: prop, Check: check, ch: ch, tt: tt, rt: rt, classes: map[string]bool{}}
}

// Int draws an integer in [lo, hi] and records it.
func (c *Case) Int(label string, lo, hi int) int {
	if lo >= hi {
		return lo
	}

	v := c.ch.Int(label, lo, hi)
	c.Choices = append(c.Choices, v)
	c.Labels = append(c.Labels, label)

	return v
}

// Bool draws a boolean (false is the simple value).
func (c *Case) Bool(label string) bool { return c.Int(label, 0, 1) == 1 }

// Pick draws an index in [0, n).
func (c *Case) Pick(label string, n int) int { return c.Int(label, 0, n-1) }

// Weighted draws an index with the given integer weights (index 0 is the simple value).
func (c *Case) Weighted(label string, w ...int) int {
	total := 0
	for _, x := range w {
		total += x
	}

	v := c.Int(label, 0, total-1)
	for i, x := range w {
		if v < x {
			return i
		}

		v -= x
	}

	return len(w) - 1
}

// Tracef appends a line to the human-readable trace of the case.
func (c *Case) Tracef(format string, args ...interface{}) {
	if len(c.trace) < 400 {
		c.trace = append(c.trace, fmt.Sprintf(format, args...))
	}
}

// Class marks the case as a member of a class (for the measured distribution).
func (c *Case) Class(name string) { c.classes[name] = true }

// NonTrivial marks the case non-trivial by the rule stated for the check.
func (c *Case) NonTrivial() { c.nontriv = true }

// OnClose registers a function run when the case ends (phase 0 runs before phase 1).
func (c *Case) OnClose(phase int, f func()) { c.closers[phase] = append(c.closers[phase], f) }

func (c *Case) runClosers() {
	for p := 0; p < 2; p++ {
		fs := c.closers[p]
		c.closers[p] = nil

		for i := len(fs) - 1; i >= 0; i-- {
			fs[i]()
		}
	}
}

// Failf reports a violation with a canonical signature (what fails, not the input).
// It must be called on the goroutine that runs the case body.
func (c *Case) Failf(sig, format string, args ...interface{}) {
	msg := fmt.Sprintf(format, args...)
	c.Tracef("FAIL[%s]: %s", sig, msg)

	if knownStatus(c.Prop, sig) == "known" {
		c.known = append(c.known, sig)

		panic(caseAbort{})
	}

	c.fail = &failure{Sig: sig, Msg: msg}

	panic(caseFail{})
}

// Assert is Failf when cond is false.
func (c *Case) Assert(cond bool, sig, format string, args ...interface{}) {
	if !cond {
		c.Failf(sig, format, args...)
	}
}

func isRapidInternal(r interface{}) bool {
	tn := fmt.Sprintf("%T", r)

	return strings.HasPrefix(tn, "rapid.") || strings.HasPrefix(tn, "*rapid.")
}

// absorb classifies a recovered panic value. It returns the sentinel to re-raise (or nil).
func (c *Case) absorb(r interface{}) interface{} {
	switch r.(type) {
	case nil:
		return nil
	case caseAbort, caseFail:
		return r
	}

	if isRapidInternal(r) {
		return r
	}

	msg := fmt.Sprintf("panic: %v", r)
	sig := "panic:" + firstLine(fmt.Sprint(r))
	c.Tracef("PANIC: %v\n%s", r, debug.Stack())

	if knownStatus(c.Prop, sig) == "known" {
		c.known = append(c.known, sig)

		return caseAbort{}
	}

	c.fail = &failure{Sig: sig, Msg: msg}

	return caseFail{}
}

func firstLine(s string) string {
	if i := strings.IndexByte(s, '\n'); i >= 0 {
		s = s[:i]
	}

	if len(s) > 120 {
		s = s[:120]
	}

	return s
}

// Bubble runs body inside a testing/synctest bubble (fake clock, deterministic quiescence).
func (c *Case) Bubble(body func()) {
	var pend interface{}

	run := func() {
		defer func() {
			r := recover()
			c.runClosers()

			if r == nil {
				return
			}

			p := c.absorb(r)
			if isRapidInternal(p) {
				panic(p)
			}

			// Save the replay now: if a library goroutine stays blocked for ever (e.g. a Get that never
			// returns), leaving the bubble panics with "deadlock" and the structured failure would be lost.
			if c.fail != nil {
				writeReplay(c)
			}

			pend = p
		}()

		body()
	}

	if c.rt != nil {
		rapid.SyncTest(c.rt, func(*rapid.T) { run() })
	} else {
		synctest.Test(c.tt, func(*testing.T) { run() })
	}

	if pend != nil {
		panic(pend)
	}
}

// SeedJitter makes the library's math/rand jitter a function of the case.
func (c *Case) SeedJitter() {
	rand.Seed(int64(c.Int("jitterseed", 0, 1000))) //nolint:staticcheck // randseednop=0 is set in go.mod.
}

func runCase(c *Case, fn func(*Case)) {
	defer func() {
		r := recover()
		c.runClosers()

		p := c.absorb(r)
		if p != nil && isRapidInternal(p) {
			panic(p)
		}
	}()

	fn(c)
}

// ---------------------------------------------------------------------------------------------
// Known findings.

type knownEntry struct {
	Property  string `json:"property"`
	Signature string `json:"signature"`
	Status    string `json:"status"`
	What      string `json:"what"`
	Commit    string `json:"commit,omitempty"`
}

var (
	knownOnce sync.Once
	knownList []knownEntry
)

func knownStatus(prop, sig string) string {
	knownOnce.Do(func() {
		p := os.Getenv("VERIF_KNOWN")
		if p == "" {
			return
		}

		b, err := os.ReadFile(p)
		if err != nil {
			return
		}

		var f struct {
			Findings []knownEntry `json:"findings"`
		}

		if json.Unmarshal(b, &f) == nil {
			knownList = f.Findings
		}
	})

	for _, e := range knownList {
		if e.Property != prop || e.Status != "known" {
			continue
		}

		if e.Signature == sig {
			return "known"
		}

		if strings.HasSuffix(e.Signature, "*") && strings.HasPrefix(sig, strings.TrimSuffix(e.Signature, "*")) {
			return "known"
		}
	}

	return ""
}

// ---------------------------------------------------------------------------------------------
// Evidence.

type sample struct {
	Classes []string `json:"classes"`
	Choices int      `json:"n_choices"`
	Trace   []string `json:"trace"`
	hash    uint64
}

type checkStats struct {
	mu sync.Mutex

	Property    string         `json:"property"`
	Check       string         `json:"check"`
	Rule        string         `json:"rule"`
	Evaluations int64          `json:"evaluations"`
	NonTrivial  int64          `json:"nontrivial"`
	Classes     map[string]int `json:"classes"`
	Known       map[string]int `json:"known"`
	Samples     []sample       `json:"samples"`
	Exhaustive  bool           `json:"exhaustive,omitempty"`
	Extra       map[string]int `json:"extra,omitempty"`
	Failed      int            `json:"failed"`
	Hashes      []uint64       `json:"hashes"`

	hashSet map[uint64]struct{}
}

const maxHashes = 400000

var (
	statsMu  sync.Mutex
	allStats = map[string]*checkStats{}
	progress int64
)

func statsFor(prop, check, rule string) *checkStats {
	statsMu.Lock()
	defer statsMu.Unlock()

	st := allStats[check]
	if st == nil {
		st = &checkStats{
			Property: prop, Check: check, Rule: rule,
			Classes: map[string]int{}, Known: map[string]int{}, hashSet: map[uint64]struct{}{},
			Extra: map[string]int{},
		}
		allStats[check] = st
	}

	return st
}

func hashChoices(ch []int) uint64 {
	h := fnv.New64a()

	var b [8]byte

	for _, v := range ch {
		u := uint64(v)
		for i := 0; i < 8; i++ {
			b[i] = byte(u >> (8 * i))
		}

		_, _ = h.Write(b[:])
	}

	return h.Sum64()
}

func (st *checkStats) record(c *Case) {
	atomic.AddInt64(&progress, 1)

	st.mu.Lock()
	defer st.mu.Unlock()

	st.Evaluations++

	for k := range c.classes {
		st.Classes[k]++
	}

	for _, k := range c.known {
		st.Known[k]++
	}

	if c.fail != nil {
		st.Failed++
	}

	if !c.nontriv {
		return
	}

	st.NonTrivial++

	h := hashChoices(c.Choices)
	if _, ok := st.hashSet[h]; !ok && len(st.hashSet) < maxHashes {
		st.hashSet[h] = struct{}{}
	}

	// Deterministic reservoir: keep the first two non-trivial cases and the three with the
	// smallest choice hash.
	cls := make([]string, 0, len(c.classes))
	for k := range c.classes {
		cls = append(cls, k)
	}

	sort.Strings(cls)

	tr := c.trace
	if len(tr) > 60 {
		tr = append(append([]string{}, tr[:58]...), fmt.Sprintf("... (%d more lines)", len(tr)-58))
	}

	s := sample{Classes: cls, Choices: len(c.Choices), Trace: tr, hash: h}

	if len(st.Samples) < 5 {
		st.Samples = append(st.Samples, s)

		return
	}

	worst := 2
	for i := 3; i < len(st.Samples); i++ {
		if st.Samples[i].hash > st.Samples[worst].hash {
			worst = i
		}
	}

	if s.hash < st.Samples[worst].hash {
		st.Samples[worst] = s
	}
}

func writeStats() {
	out := os.Getenv("VERIF_STATS_OUT")
	if out == "" {
		return
	}

	statsMu.Lock()
	defer statsMu.Unlock()

	list := make([]*checkStats, 0, len(allStats))

	for _, st := range allStats {
		st.Hashes = st.Hashes[:0]
		for h := range st.hashSet {
			st.Hashes = append(st.Hashes, h)
		}

		sort.Slice(st.Hashes, func(i, j int) bool { return st.Hashes[i] < st.Hashes[j] })
		list = append(list, st)
	}

	sort.Slice(list, func(i, j int) bool { return list[i].Check < list[j].Check })

	b, err := json.Marshal(list)
	if err == nil {
		_ = os.WriteFile(out, b, 0o644)
	}
}

// ---------------------------------------------------------------------------------------------
// Replay files.

type replayFile struct {
	Property string   `json:"property"`
	Check    string   `json:"check"`
	Sig      string   `json:"sig"`
	Message  string   `json:"message"`
	Choices  []int    `json:"choices"`
	Labels   []string `json:"labels,omitempty"`
	Trace    []string `json:"trace"`
}

var (
	replayMu   sync.Mutex
	replayBest = map[string][2]int{}
)

func writeReplay(c *Case) string {
	dir := os.Getenv("VERIF_REPLAY_DIR")
	if dir == "" || c.fail == nil {
		return ""
	}

	replayMu.Lock()
	defer replayMu.Unlock()

	path := filepath.Join(dir, c.Check+os.Getenv("VERIF_REPLAY_SUFFIX")+".json")

	sum := 0
	for _, v := range c.Choices {
		sum += v
	}

	cur := [2]int{len(c.Choices), sum}
	if best, ok := replayBest[c.Check]; ok && (best[0] < cur[0] || (best[0] == cur[0] && best[1] <= cur[1])) {
		return path
	}

	replayBest[c.Check] = cur

	rf := replayFile{
		Property: c.Prop, Check: c.Check, Sig: c.fail.Sig, Message: c.fail.Msg,
		Choices: c.Choices, Labels: c.Labels, Trace: c.trace,
	}

	b, err := json.MarshalIndent(rf, "", " ")
	if err != nil {
		return ""
	}

	_ = os.MkdirAll(dir, 0o755)
	_ = os.WriteFile(path, b, 0o644)

	return path
}

// ---------------------------------------------------------------------------------------------
// Check runners.

// runCheck runs a property under rapid (or replays a recorded case when VERIF_REPLAY is set).
func runCheck(t *testing.T, prop, check, rule string, fn func(c *Case)) {
	t.Helper()
	runCheckPrefix(t, prop, check, rule, nil, fn)
}

// runCheckPrefix is runCheck with the first choices forced to prefix.
func runCheckPrefix(t *testing.T, prop, check, rule string, prefix []int, fn func(c *Case)) {
	t.Helper()

	if path := os.Getenv("VERIF_REPLAY"); path != "" {
		replayCheck(t, prop, check, path, fn)

		return
	}

	st := statsFor(prop, check, rule)

	rapid.Check(t, func(rt *rapid.T) {
		var ch Chooser = rapidChooser{rt}
		if len(prefix) > 0 {
			ch = &prefixChooser{prefix: prefix, inner: ch}
		}

		c := newCase(prop, check, ch, t, rt)
		runCase(c, fn)
		st.record(c)

		if c.fail != nil {
			p := writeReplay(c)
			rt.Fatalf("property %s check %s violated [%s]: %s (replay: %s)", prop, check, c.fail.Sig, c.fail.Msg, p)
		}
	})
}

func replayCheck(t *testing.T, prop, check, path string, fn func(c *Case)) {
	t.Helper()

	b, err := os.ReadFile(path)
	if err != nil {
		t.Fatalf("replay: %v", err)
	}

	var rf replayFile
	if err := json.Unmarshal(b, &rf); err != nil {
		t.Fatalf("replay: %v", err)
	}

	if rf.Check != check {
		t.Skip("replay file is for another check")
	}

	c := newCase(prop, check, &scriptChooser{vals: rf.Choices}, t, nil)
	runCase(c, fn)

	for _, l := range c.trace {
		t.Log(l)
	}

	if len(c.known) > 0 {
		t.Logf("REPLAY-KNOWN property=%s check=%s sig=%v", prop, check, c.known)
	}

	if c.fail != nil {
		fmt.Printf("REPLAY-VIOLATION property=%s check=%s sig=%s: %s\n", prop, check, c.fail.Sig, c.fail.Msg)
		t.Fatalf("violation reproduced: [%s] %s", c.fail.Sig, c.fail.Msg)
	}

	// A replay recorded before the generator changed draws different things from the same numbers.
	for i, l := range rf.Labels {
		if i < len(c.Labels) && c.Labels[i] != l {
			fmt.Printf("REPLAY-STALE property=%s check=%s: choice %d was %q when recorded, is %q now\n", prop, check, i, l, c.Labels[i])

			return
		}
	}

	fmt.Printf("REPLAY-OK property=%s check=%s\n", prop, check)
}

// runEnum runs fn for every choice sequence (depth-first), up to limit cases (0 = no limit).
// It returns the number of executed cases and whether the space was exhausted.
func runEnum(t *testing.T, prop, check, rule string, maxDepth, limit int, fn func(c *Case)) (int, bool) {
	t.Helper()

	return runEnumPrefix(t, prop, check, rule, nil, maxDepth, limit, fn)
}

// runEnumPrefix is runEnum with the first choices forced to prefix (not enumerated).
func runEnumPrefix(t *testing.T, prop, check, rule string, prefix []int, maxDepth, limit int, fn func(c *Case)) (int, bool) {
	t.Helper()

	if path := os.Getenv("VERIF_REPLAY"); path != "" {
		replayCheck(t, prop, check, path, fn)

		return 0, false
	}

	st := statsFor(prop, check, rule)
	e := newEnum(maxDepth)
	n := 0

	for e.more() {
		if limit > 0 && n >= limit {
			return n, false
		}

		var ch Chooser = e
		if len(prefix) > 0 {
			ch = &prefixChooser{prefix: prefix, inner: e}
		}

		c := newCase(prop, check, ch, t, nil)
		runCase(c, fn)
		st.record(c)
		n++

		if c.fail != nil {
			p := writeReplay(c)
			t.Fatalf("property %s check %s violated [%s]: %s (replay: %s)", prop, check, c.fail.Sig, c.fail.Msg, p)
		}
	}

	if len(prefix) == 0 {
		st.mu.Lock()
		st.Exhaustive = true
		st.mu.Unlock()
	}

	return n, true
}
