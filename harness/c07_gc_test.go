package harness

import (
	"bytes"
	"context"
	"fmt"
	"io"
	"runtime"
	"testing"
	"time"

	"github.com/bool64/cache"
)

const c07gRule = "a cache that is only reachable through method values, or whose last use is a running Dump, while the garbage collector runs (the exported wrapper types carry a finalizer that stops the janitor): " +
	"backend kind x 1..400 entries x {read back through bound Read/Len/Walk after two GC cycles, Dump into a writer that forces GC cycles while the dump runs}; oracle: every written entry is still there / the dump is complete; real clock, no bubble; " +
	"non-trivial = more than 100 entries"

type gcWriter struct {
	w      io.Writer
	writes int
}

func (g *gcWriter) Write(p []byte) (int, error) {
	g.writes++
	if g.writes == 1 || g.writes%50 == 0 {
		runtime.GC()
		time.Sleep(2 * time.Millisecond) // let the finalizer goroutine run
	}

	return g.w.Write(p)
}

//go:noinline
func dumpAsLastUse(kind string, n int, w io.Writer) (int, error) {
	cfg := cache.Config{TimeToLive: time.Hour, ExpirationJitter: -1}.Use

	switch kind {
	case kindSharded:
		c := cache.NewShardedMap(cfg)
		for i := 0; i < n; i++ {
			_ = c.Write(bg, []byte(fmt.Sprintf("gc-%04d", i)), "v")
		}

		return c.Dump(w)
	case kindSync:
		c := cache.NewSyncMap(cfg)
		for i := 0; i < n; i++ {
			_ = c.Write(bg, []byte(fmt.Sprintf("gc-%04d", i)), "v")
		}

		return c.Dump(w)
	}

	c := cache.NewShardedMapOf[string](cfg)
	for i := 0; i < n; i++ {
		_ = c.Write(bg, []byte(fmt.Sprintf("gc-%04d", i)), "v")
	}

	return c.Dump(w)
}

//go:noinline
func boundMethods(kind string) (write func(ctx context.Context, k []byte, v string) error, read func(ctx context.Context, k []byte) (interface{}, error), length func() int) {
	cfg := cache.Config{TimeToLive: time.Hour, ExpirationJitter: -1}.Use

	switch kind {
	case kindSharded:
		c := cache.NewShardedMap(cfg)
		w, r := c.Write, c.Read

		return func(ctx context.Context, k []byte, v string) error { return w(ctx, k, v) }, r, c.Len
	case kindSync:
		c := cache.NewSyncMap(cfg)
		w, r := c.Write, c.Read

		return func(ctx context.Context, k []byte, v string) error { return w(ctx, k, v) }, r, c.Len
	}

	c := cache.NewShardedMapOf[string](cfg)
	r := c.Read

	return c.Write, func(ctx context.Context, k []byte) (interface{}, error) { return r(ctx, k) }, c.Len
}

// TestC07WrapperCollected: entries do not depend on the exported wrapper staying reachable.
func TestC07WrapperCollected(t *testing.T) {
	runCheck(t, "C07", "C07WrapperCollected", c07gRule, func(c *Case) {
		kind := backendKinds[c.Pick("backend", len(backendKinds))]
		n := []int{1, 9, 150, 400}[c.Pick("entries", 4)]
		mode := c.Pick("mode", 2)

		c.Class("backend=" + kind)
		c.Tracef("backend=%s entries=%d mode=%d", kind, n, mode)

		if n > 100 {
			c.NonTrivial()
		}

		if mode == 1 {
			var buf bytes.Buffer

			dn, err := dumpAsLastUse(kind, n, &gcWriter{w: &buf})
			c.Assert(err == nil && dn == n, "dump-result", "Dump of %d entries (the cache's last use, GC running meanwhile) returned (%d, %v)", n, dn, err)

			dst := newCaseBackend(c, kind, cache.Config{TimeToLive: time.Hour, ExpirationJitter: -1, DeleteExpiredJobInterval: farFuture})
			rn, rerr := dst.Restore(&buf)
			c.Assert(rerr == nil && rn == n && dst.Len() == n, "roundtrip", "restoring that dump gave (%d, %v) and %d entries, want %d", rn, rerr, dst.Len(), n)
			c.Class("dump-as-last-use")

			return
		}

		write, read, length := boundMethods(kind)

		for i := 0; i < n; i++ {
			_ = write(bg, []byte(fmt.Sprintf("gc-%04d", i)), "v")
		}

		for i := 0; i < 2; i++ {
			runtime.GC()
			time.Sleep(2 * time.Millisecond)
		}

		c.Assert(length() == n, "len", "Len() = %d after two GC cycles, %d entries were written (cache held through bound methods only)", length(), n)

		for i := 0; i < n; i++ {
			v, err := read(bg, []byte(fmt.Sprintf("gc-%04d", i)))
			c.Assert(err == nil && gstr(v) == "v", "read-fresh", "Read of a written key after two GC cycles = (%v, %v)", v, err)
		}

		c.Class("bound-methods-only")
	})
}
