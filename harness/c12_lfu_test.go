package harness

import (
	"fmt"
	"sync"
	"testing"
	"time"

	"github.com/bool64/cache"
)

const c12lRule = "free-running (real parallelism, no bubble): LFU cache with 4-6 entries; one hot key is served G x R times by G in {2..8} goroutines in parallel (R in 4000..20000), every cold key 5% fewer times by one goroutine; " +
	"one cleanup cycle (VerifCleanup hook, EvictionNeeded) removes half of the entries; oracle: the most frequently served entry (the hot one) is kept and ranks above every removed entry; " +
	"non-trivial = at least 4 parallel readers"

// TestC12LFUParallel: the serve count that LFU ranks by counts every serve, also parallel ones.
func TestC12LFUParallel(t *testing.T) {
	runCheck(t, "C12", "C12LFUParallel", c12lRule, func(c *Case) {
		kind := backendKinds[c.Pick("backend", len(backendKinds))]
		g := c.Int("goroutines", 2, 8)
		r := c.Int("reads-per-goroutine", 4000, 20000)
		ncold := c.Int("cold-keys", 3, 5)
		viaLoad := c.Bool("serve-via-Load")

		c.Class("backend=" + kind)
		c.Tracef("backend=%s: hot key served %d x %d times in parallel, %d cold keys served %d times each sequentially", kind, g, r, ncold, g*r-g*r/20)

		if g >= 4 {
			c.NonTrivial()
		}

		need := true
		be := newCaseBackend(c, kind, cache.Config{
			TimeToLive: time.Hour, ExpirationJitter: -1, EvictionStrategy: cache.EvictLeastFrequentlyUsed, EvictFraction: 0.5,
			EvictionNeeded:           func() bool { return need },
			DeleteExpiredJobInterval: farFuture, DeleteExpiredAfter: farFuture, ItemsCountReportInterval: farFuture,
		})

		hot := []byte("hot")
		_ = be.Write(bg, hot, "v")

		var cold [][]byte

		for i := 0; i < ncold; i++ {
			k := []byte(fmt.Sprintf("cold-%d", i))
			cold = append(cold, k)
			_ = be.Write(bg, k, "v")
		}

		serve := func(k []byte) {
			if viaLoad && be.HasLoadStore() {
				be.Load(k)
			} else {
				be.Read(bg, k)
			}
		}

		var wg sync.WaitGroup

		start := make(chan struct{})

		for i := 0; i < g; i++ {
			wg.Add(1)

			go func() {
				defer wg.Done()

				<-start

				for j := 0; j < r; j++ {
					serve(hot)
				}
			}()
		}

		close(start)

		for _, k := range cold {
			for j := 0; j < g*r-g*r/20; j++ {
				serve(k)
			}
		}

		wg.Wait()
		be.Cleanup()

		need = false

		kept := map[string]bool{}
		_, _ = be.Walk(func(k []byte, _ interface{}, _ time.Time) error {
			kept[string(k)] = true

			return nil
		})

		c.Tracef("kept after the cycle: %v", kept)
		c.Assert(len(kept) < 1+ncold, "nothing-evicted", "EvictionNeeded returned true but all %d entries are still there", 1+ncold)
		c.Assert(kept["hot"], "rank", "strategy LFU: the entry served %d times (in parallel) was removed, entries served %d times were kept: %v", g*r, g*r-g*r/20, kept)
	})
}
