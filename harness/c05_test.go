package harness

import (
	"context"
	"errors"
	"testing"
	"testing/synctest"
	"time"

	"github.com/bool64/cache"
)

const c05aRule = "bursts: SyncRead forced on, one key initially absent / stale-recent / stale-old, 2-8 Gets with the same builder outcome arriving at generated points of a generated schedule (call-out granularity), result TTL 1h, clock jumps <= 1s (failing bursts) or up to UpdateTTL+1ns (succeeding bursts), no external ops, no SkipRead, no negative TTL (excluded by construction so the result stays fresh); " +
	"oracle: builder ok => exactly one builder invocation in the whole case; builder error with failures cached => exactly one invocation, and every Get started after it returns the cached error or the stale value; " +
	"non-trivial = a waiter was seen or a Get started after the build had finished"

const c05bRule = "suppression window: sequential timeline of 3-12 lone Gets on one key at generated fake instants (constructed outside the failure cache's jitter band [0.95,1.05]*FailedUpdateTTL), scripted builder outcomes, FailedUpdateTTL in {default 20s, 1s..1h, -1}, backend TTL 10s..1h, SyncUpdate/FailHard/MaxStaleness drawn; " +
	"oracle per Get (freshness observed by a direct backend read): fresh => no build; no fresh value inside [t_fail, t_fail+0.95F) => no build and the same error object if an error is returned; no fresh value after t_fail+1.05F (or never failed, or -1) => exactly one build; " +
	"non-trivial = the timeline has a Get inside a suppression window and a Get that builds after a window"

// TestC05Burst: with SyncRead a burst of Gets costs exactly one successful build.
func TestC05Burst(t *testing.T) {
	runCheck(t, "C05", "C05Burst", c05aRule, func(c *Case) {
		fails := c.Weighted("burst-outcome", 2, 1) == 1
		o := scenOpts{
			maxKeys: 1, minGets: 2, maxGets: 8, clock: 2, callerTTLs: []time.Duration{0, time.Hour},
			initStates: []int{ksAbsent, ksStaleRecent, ksStaleOld},
			forceCfg: func(cfg *foCfg) {
				cfg.syncRead = true

				if fails && cfg.failedUpdateTTL == -1 {
					cfg.failedUpdateTTL = 0
				}

				if cfg.updateTTL == time.Second && fails {
					cfg.updateTTL = 0
				}
			},
		}

		sc := drawScenario(c, o)
		for _, g := range sc.gets {
			g.buildFails = fails
		}

		sc.describe(c)

		c.Bubble(func() {
			w := newWorld(c, sc.cfg)
			w.prepare(sc)

			// the result (TTL 1h) stays fresh across a jump past UpdateTTL; a cached failure (20s+) does not
			menu := []time.Duration{time.Nanosecond, time.Second}
			if !fails && sc.cfg.effUpdateTTL() < 30*time.Minute {
				menu = append(menu, sc.cfg.effUpdateTTL()+1)
			}

			complete := w.runSchedule(sc.gets, ctlOpts{clockSteps: 2, clockMenu: menu})
			w.reportProblems()
			w.classify(sc)

			if !complete {
				return
			}

			builds := 0

			var first *buildRec

			for _, b := range w.log.builds {
				if b.getIdx >= 0 {
					builds++

					if first == nil {
						first = b
					}
				}
			}

			if fails {
				c.Class("burst-failing")
			} else {
				c.Class("burst-succeeding")
			}

			c.Assert(builds == 1, "redundant-build", "SyncRead burst of %d Gets on one key (builder fails=%v): builder invoked %d times, want exactly 1", len(sc.gets), fails, builds)

			lateArrival := false

			for _, g := range w.log.gets {
				if first != nil && g.startStep > first.exitStep {
					lateArrival = true

					if fails {
						okRes := (g.err != nil && errors.Is(g.err, first.err)) || (g.err == nil && valEq(w.be.Generic(), g.val, initToken(scenKeys[0])))
						c.Assert(okRes, "failure-not-served", "%s started after the failed build and got (%v, %v), want the cached error or the stale value", g.task, g.val, g.err)
					}
				}
			}

			if lateArrival {
				c.Class("arrival-after-build")
			}

			if c.classes["waiter-seen(log)"] || lateArrival {
				c.NonTrivial()
			}
		})
	})
}

// TestC05Suppression: cached failures suppress rebuilds for FailedUpdateTTL (minus jitter).
func TestC05Suppression(t *testing.T) {
	runCheck(t, "C05", "C05Suppression", c05bRule, propSuppression)
}

func propSuppression(c *Case) {
	cfg := foCfg{
		variant: c.Pick("variant", nVariants), syncUpdate: c.Bool("SyncUpdate"), syncRead: c.Bool("SyncRead"), failHard: c.Bool("FailHard"),
		logger: 0, stats: false,
	}
	cfg.maxStaleness = []time.Duration{0, 30 * time.Second}[c.Pick("MaxStaleness", 2)]
	cfg.failedUpdateTTL = []time.Duration{0, -1, time.Second, 90 * time.Second, time.Hour}[c.Pick("FailedUpdateTTL", 5)]
	cfg.updateTTL = []time.Duration{0, 5 * time.Second}[c.Pick("UpdateTTL", 2)]
	cfg.backendTTL = []time.Duration{10 * time.Second, 5 * time.Minute, time.Hour}[c.Pick("backendTTL", 3)]
	cfg.observeMut = c.Weighted("ObserveMutability", 2, 1) == 1
	cfg.stats = cfg.observeMut && c.Bool("stats")
	cfg.noiseBackendCfg = c.Weighted("BackendConfig-next-to-Backend", 3, 1) == 1
	// builders usually return a new value per invocation; a data source may also return the same value again
	stableValue := c.Weighted("stable-value", 2, 1) == 1

	enabled := cfg.failedUpdateTTL != -1
	f := cfg.effFailedTTL()
	key := []byte("sup")

	c.Tracef("config: %s", cfg)
	c.Class("variant=" + variantNames[cfg.variant])

	if !enabled {
		c.Class("FailedUpdateTTL=-1")
	}

	c.Bubble(func() {
		w := newWorld(c, cfg)
		w.attach()

		var (
			lastFailErr                    error
			lastFailAt                     time.Time
			invocations                    int
			inWindowSeen, afterWindowBuild bool
			freshUntil                     int64
			builtAt                        time.Time
			builtTTL                       time.Duration
		)

		n := c.Int("gets", 3, 12)

		for i := 0; i < n; i++ {
			// advance the clock to the next instant, outside the jitter band of the last failure
			menu := []time.Duration{time.Nanosecond, time.Second, f / 2, time.Duration(float64(f) * 0.94), time.Duration(float64(f)*1.06) + 1, cfg.backendTTL + 1, cfg.effUpdateTTL() + 1}
			d := menu[c.Pick("advance", len(menu))]
			target := time.Now().Add(d)

			if enabled && lastFailErr != nil {
				lo := lastFailAt.Add(time.Duration(float64(f) * 0.95)).Add(-2 * time.Nanosecond)
				hi := lastFailAt.Add(time.Duration(float64(f) * 1.05)).Add(2 * time.Nanosecond)

				if !target.Before(lo) && !target.After(hi) {
					target = hi.Add(time.Nanosecond)
					c.Class("instant-moved-out-of-jitter-band")
				}
			}

			time.Sleep(time.Until(target))
			synctest.Wait()

			now := time.Now()
			fresh := w.be.Read(bg, key)
			hasFresh := fresh.Err == nil
			inWindow := enabled && lastFailErr != nil && now.Before(lastFailAt.Add(time.Duration(float64(f)*0.95)))
			fails := c.Weighted("builder-fails", 1, 1) == 1

			before := invocations
			tok := tokenFor(key, "seq", i)
			if stableValue {
				tok = tokenFor(key, "same", 0)
				c.Class("builder-returns-same-value")
			}
			bErr := &buildErr{key: string(key), task: "seq", n: i}

			// a failure is a failure whatever it wraps (a builder reading a second-level cache passes its miss on)
			switch c.Weighted("error-kind", 5, 1, 1, 1, 1) {
			case 1:
				bErr.cause = cache.ErrNotFound
				c.Class("failure-wraps-ErrNotFound")
			case 2:
				bErr.cause = cache.ErrExpired
			case 3:
				bErr.cause = context.Canceled
			case 4:
				bErr.cause = context.DeadlineExceeded
			}

			// caller context: may carry a TTL, may already be cancelled (a failure is a failure and
			// must be cached all the same)
			ctx, cancel := context.WithCancel(context.Background())
			callerTTL := []time.Duration{0, 0, 2 * time.Hour, 10 * time.Minute}[c.Pick("callerTTL", 4)]

			if callerTTL != 0 {
				ctx = cache.WithTTL(ctx, callerTTL, false)
			}

			if c.Weighted("cancelled-caller", 4, 1) == 1 {
				cancel()
				c.Class("cancelled-caller")
			}

			// a value built earlier has to stay fresh for the TTL it was stored with
			if now.UnixNano() < freshUntil { // the expiry instant itself may go either way
				c.Assert(hasFresh, "result-expired-early", "the value built at +%v with TTL %v is not fresh any more at +%v", builtAt.Sub(time.Unix(946684800, 0)), builtTTL, now.Sub(time.Unix(946684800, 0)))
			}

			// a data source may take its time (also to fail): what counts is when the build ended
			dur := []time.Duration{0, time.Second, f / 2, 2 * f}[c.Weighted("build-duration", 5, 1, 1, 1)]
			if dur > 0 {
				c.Class("slow-builder")
			}

			buildEnd := now

			buf := append([]byte{}, key...)
			v, err := w.fe.Get(ctx, buf, func(context.Context) (string, error) {
				invocations++

				if dur > 0 {
					time.Sleep(dur)
				}

				buildEnd = time.Now()

				if fails {
					return "", bErr
				}

				return tok, nil
			})

			for j := range buf {
				buf[j] = 0xAA
			}

			synctest.Wait() // let a background build finish

			if dur > 0 {
				time.Sleep(dur) // a slow background build is still under way
				synctest.Wait()
			}

			inv := invocations - before
			c.Tracef("t=+%v Get = (%v, %v); fresh before=%v inWindow=%v builderFails=%v invocations=%d", now.Sub(time.Unix(946684800, 0)), v, err, hasFresh, inWindow, fails, inv)

			switch {
			case hasFresh:
				c.Assert(inv == 0 && err == nil && valEq(w.be.Generic(), v, fresh.Val), "build-despite-fresh", "a fresh value %v existed, Get returned (%v, %v) with %d builds", fresh.Val, v, err, inv)
			case inWindow:
				inWindowSeen = true

				c.Assert(inv == 0, "build-in-suppression-window", "builder invoked %d times %v after a failure, FailedUpdateTTL=%v", inv, now.Sub(lastFailAt), f)

				if err != nil {
					c.Assert(errors.Is(err, lastFailErr), "other-error-in-window", "inside the suppression window Get returned %v, want the cached %v", err, lastFailErr)
				}
			default:
				c.Assert(inv == 1, "no-build-after-window", "no fresh value, no active failure (last failure %v ago, FailedUpdateTTL=%v enabled=%v): builder invoked %d times, want 1",
					now.Sub(lastFailAt), f, enabled, inv)

				if lastFailErr != nil {
					afterWindowBuild = true
				}
			}

			cancel()

			if inv > 0 && fails {
				lastFailErr, lastFailAt = bErr, buildEnd
			}

			if inv > 0 && !fails {
				builtTTL = callerTTL
				if builtTTL == 0 {
					builtTTL = cfg.backendTTL
				}

				builtAt = buildEnd
				freshUntil = buildEnd.Add(builtTTL).UnixNano()
			}
		}

		c.Assert(w.fe.KeyLocks() == 0, "leaked-key-lock", "%d key locks held at the end", w.fe.KeyLocks())

		if inWindowSeen {
			c.Class("get-inside-window")
		}

		if afterWindowBuild {
			c.Class("build-after-window")
		}

		if (inWindowSeen && afterWindowBuild) || (!enabled && afterWindowBuild) {
			c.NonTrivial()
		}
	})
}
