package harness

import (
	"context"
	"strings"
	"testing"
	"time"

	"github.com/bool64/cache"
)

const c06aRule = "pure WithTTL algebra: 1-25 derivation steps over a growing tree of contexts (WithTTL with ttl in {0, +/-1ns, +/-1s, +/-1h, +/-100y} and both updateExisting modes, interleaved WithValue/WithCancel children) ; " +
	"model: one TTL cell per updateExisting=false derivation (or first derivation), updateExisting=true on an existing cell keeps the minimal non-zero value; TTL(ctx) of every context of the tree compared after every step; " +
	"non-trivial = an updateExisting=true call hit an existing cell"

const c06bRule = "C01-style generated schedules with caller TTL in {no cell, zero cell, +1h, +10m, -1ns}, builder scripts calling WithTTL(ctx, b, true) 0-3 times with b in {0, 10m, 3h, -1ns, 1ns}, caller contexts with deadlines / cancelled before the call / cancelled after return, SkipRead Gets; " +
	"oracle from the backend wrapper's log: final store TTL = fold(min non-zero) of builder updates over the caller's cell (0 if no cell), refresh store TTL = UpdateTTL exactly, TTL(callerCtx) at quiescence = the same fold, backend ExpireAt = write instant + TTL, background build context has nil Done/Err, no deadline and the caller's values even if the caller was cancelled, a SkipRead result comes from a build that finished after the Get started and is stored; " +
	"non-trivial = a builder changed the TTL cell, or a background build ran for a cancelled caller, or a SkipRead Get built"

// TestC06WithTTL: the WithTTL update rule (pure).
func TestC06WithTTL(t *testing.T) {
	runCheck(t, "C06", "C06WithTTL", c06aRule, propWithTTL)
}

type ttlNode struct {
	ctx  context.Context
	cell int // index into cells, -1 = none
}

func foldTTL(existing, ttl time.Duration) time.Duration {
	if ttl == 0 {
		return existing
	}

	if existing == 0 || ttl < existing {
		return ttl
	}

	return existing
}

func propWithTTL(c *Case) {
	ttls := []time.Duration{0, time.Second, -time.Nanosecond, time.Nanosecond, -time.Second, time.Hour, -time.Hour, 876000 * time.Hour, -876000 * time.Hour, 10 * time.Minute}
	nodes := []ttlNode{{ctx: context.Background(), cell: -1}}

	var cells []time.Duration

	type kk struct{ n int }

	steps := c.Int("steps", 1, 25)

	for i := 0; i < steps; i++ {
		ni := c.Pick("node", len(nodes))
		n := nodes[ni]

		switch c.Weighted("derive", 6, 1, 1) {
		case 0:
			ttl := ttls[c.Pick("ttl", len(ttls))]
			upd := c.Bool("updateExisting")
			got := cache.WithTTL(n.ctx, ttl, upd)

			if upd && n.cell >= 0 {
				before := cells[n.cell]
				cells[n.cell] = foldTTL(before, ttl)
				c.NonTrivial()
				c.Tracef("WithTTL(node%d, %v, true): existing cell %v -> model %v", ni, ttl, before, cells[n.cell])

				if ttl == 0 && before != 0 {
					c.Class("zero-update-on-nonzero")
				}

				if ttl < 0 {
					c.Class("negative-update")
				}

				c.Assert(cache.TTL(got) == cells[n.cell], "update-rule", "WithTTL(ctx{ttl=%v}, %v, true): TTL of the returned context = %v, want %v (minimal non-zero value is kept)", before, ttl, cache.TTL(got), cells[n.cell])
				nodes = append(nodes, ttlNode{ctx: got, cell: n.cell})
			} else {
				cells = append(cells, ttl)
				nodes = append(nodes, ttlNode{ctx: got, cell: len(cells) - 1})
				c.Tracef("WithTTL(node%d, %v, %v): new cell -> node%d", ni, ttl, upd, len(nodes)-1)
			}
		case 1:
			nodes = append(nodes, ttlNode{ctx: context.WithValue(n.ctx, kk{i}, i), cell: n.cell})
			c.Tracef("WithValue(node%d) -> node%d", ni, len(nodes)-1)
		case 2:
			cctx, cancel := context.WithCancel(n.ctx)
			cancel()
			nodes = append(nodes, ttlNode{ctx: cctx, cell: n.cell})
			c.Tracef("WithCancel(node%d)+cancel -> node%d", ni, len(nodes)-1)
		}

		for j, m := range nodes {
			want := time.Duration(0)
			if m.cell >= 0 {
				want = cells[m.cell]
			}

			c.Assert(cache.TTL(m.ctx) == want, "ttl-of-context", "after step %d: TTL(node%d) = %v, model %v", i, j, cache.TTL(m.ctx), want)
		}
	}
}

// TestC06Failover: TTL and context travel through Failover as documented.
func TestC06Failover(t *testing.T) {
	runCheck(t, "C06", "C06Failover", c06bRule, func(c *Case) {
		propFailoverSched(c, scenOpts{
			maxKeys: 2, minGets: 1, maxGets: 5, skipRead: true, clock: 0, external: 0, prefail: false, postActions: true,
			builderTTL: true, ttlCells: true, failPct: 20,
			callerTTLs: []time.Duration{0, time.Hour, 10 * time.Minute, -1},
		}, func(w *world, sc *scenario, complete bool) {
			if complete {
				w.checkTTLContext(sc)
			}
		})
	})
}

// checkTTLContext is the C06 oracle over the run log.
func (w *world) checkTTLContext(sc *scenario) {
	c := w.c
	l := w.log
	upd := sc.cfg.effUpdateTTL()

	buildOf := map[int]*buildRec{}
	for _, b := range l.builds {
		if b.getIdx >= 0 {
			c.Assert(buildOf[b.getIdx] == nil, "double-build-for-get", "two builder invocations for one Get g%d", b.getIdx)
			buildOf[b.getIdx] = b
		}
	}

	tokOwner := map[string]*getSpec{}
	for _, g := range sc.gets {
		if b := buildOf[g.idx]; b != nil && b.tok != "" {
			tokOwner[b.tok] = g
		}
	}

	// a build is a background build if its Get returned before the builder did (not: whichever
	// goroutine the library chose to run the builder on)
	isBackground := func(b *buildRec) bool {
		for _, gr := range l.gets {
			if gr.idx == b.getIdx {
				return gr.done && b.exitStep >= 0 && gr.returnStep < b.exitStep
			}
		}

		return false
	}

	// Without a TTL cell in the caller's context a builder's WithTTL(ctx, t, true) has no holder to
	// update by WithTTL's contract ("updates existing"); the statement ("lowered to the smallest
	// non-zero TTL communicated by the builder") is also met if Failover provides a holder itself.
	foldNoCell := func(g *getSpec) time.Duration {
		t := time.Duration(0)
		if buildOf[g.idx] != nil {
			for _, bt := range g.builderTTL {
				t = foldTTL(t, bt)
			}
		}

		return t
	}

	foldFor := func(g *getSpec) time.Duration {
		if g.ttl == 0 && !g.ttlCell {
			return 0 // no cell: builder updates are invisible by WithTTL's contract
		}

		t := g.ttl
		if buildOf[g.idx] != nil {
			for _, bt := range g.builderTTL {
				t = foldTTL(t, bt)
			}
		}

		return t
	}

	// a, b: TTL seen by the backend for final stores and refresh stores.
	lastWrite := map[string]*beRec{}

	for _, r := range l.be {
		if r.op != "write" {
			continue
		}

		// A final store is made by the very goroutine that ran the builder; the same token written
		// by anybody else later is a re-store of a (by then stale) value.
		if s, ok := r.val.(string); ok && tokOwner[s] != nil && buildOf[tokOwner[s].idx].task == r.task {
			g := tokOwner[s]
			want := foldFor(g)
			if g.ttl == 0 && !g.ttlCell && r.ttl != want && r.ttl == foldNoCell(g) {
				c.Class("builder-ttl-applied-without-caller-cell")

				want = r.ttl
			}

			c.Assert(r.ttl == want, "final-store-ttl", "final store of %s for g%d (caller ttl=%v cell=%v, builder updates %v) carried TTL %v, want %v",
				s, g.idx, g.ttl, g.ttl != 0 || g.ttlCell, g.builderTTL, r.ttl, want)

			if len(g.builderTTL) > 0 && want != g.ttl {
				c.Class("builder-lowered-ttl")
				c.NonTrivial()
			}
		} else {
			c.Assert(r.ttl == upd, "refresh-store-ttl", "re-store of stale value %v carried TTL %v, want UpdateTTL %v", r.val, r.ttl, upd)
			c.Class("refresh-store")
		}

		if r.err == nil {
			lastWrite[r.key] = r
		}
	}

	// every successfully built value is stored (the store is attempted by the goroutine that built it)
	for _, b := range l.builds {
		if b.getIdx < 0 || b.tok == "" || b.exitStep < 0 {
			continue
		}

		attempted := false

		for _, r := range l.be {
			if r.op == "write" && r.task == b.task && r.val == interface{}(b.tok) {
				attempted = true
			}
		}

		g := sc.gets[b.getIdx]
		c.Assert(attempted, "built-value-not-stored", "the value %v built for g%d (caller cancelled before=%v deadline=%v) was never written to the backend", b.tok, g.idx, g.cancelBefore, g.deadline)
	}

	// c: caller's context after the Get.
	for _, g := range sc.gets {
		want := foldFor(g)
		got := cache.TTL(g.ctx)

		// a builder's update is documented to reach "the original context" it was given; whether the
		// detached context of a background build shares the caller's TTL holder is not specified
		if b := buildOf[g.idx]; b != nil && (isBackground(b) || strings.Contains(b.task, ".bg")) && got == g.ttl {
			continue
		}

		c.Assert(got == want, "caller-ctx-ttl", "TTL(caller context of g%d) = %v at quiescence, want %v (caller ttl=%v cell=%v, builder updates %v, built=%v)",
			g.idx, got, want, g.ttl, g.ttl != 0 || g.ttlCell, g.builderTTL, buildOf[g.idx] != nil)
	}

	// d: expiry in the real backend.
	_, _ = w.be.Walk(func(k []byte, v interface{}, exp time.Time) error {
		if r := lastWrite[string(k)]; r != nil {
			ttl := r.ttl
			if ttl == 0 {
				ttl = sc.cfg.backendTTL
			}

			want := r.at.Add(ttl).UnixNano()
			c.Assert(exp.UnixNano() == want, "stored-expiry", "key %s (%v) expires at offset %v from its write, want %v", keyName(k), v, exp.Sub(r.at), ttl)
		}

		return nil
	})

	// e: context of builds.
	for _, b := range l.builds {
		if b.getIdx < 0 {
			continue
		}

		g := sc.gets[b.getIdx]
		bgBuild := isBackground(b)

		c.Assert(b.userVal == interface{}("user-"+itoa(g.idx)), "build-ctx-values", "builder for g%d saw ctx.Value(userKey) = %v", g.idx, b.userVal)

		rs, _ := b.scopeVal.(*requestScope)
		c.Assert(rs != nil && rs.id == g.idx, "build-ctx-values", "builder for g%d saw ctx.Value(scopeKey) = %v, want the caller's request scope object (a value that implements context.Context)", g.idx, b.scopeVal)

		if bgBuild {
			c.Class("background-build-ctx")
			c.Assert(b.ctxDoneNil && b.ctxErr == nil && !b.hasDeadline, "background-ctx-not-detached",
				"background build for g%d: Done()==nil:%v Err()=%v hasDeadline=%v (caller cancelledBefore=%v cancelAfter=%v deadline=%v)",
				g.idx, b.ctxDoneNil, b.ctxErr, b.hasDeadline, g.cancelBefore, g.cancel, g.deadline)

			if g.cancelBefore || g.cancel {
				c.Class("background-build-cancelled-caller")
				c.NonTrivial()
			}
		}
	}

	// f: SkipRead forces a rebuild whose result is stored.
	for _, gr := range l.gets {
		g := sc.gets[gr.idx]
		if !g.skipRead || !gr.done || gr.err != nil {
			continue
		}

		ok := false

		for _, b := range l.builds {
			if b.key == gr.key && b.tok != "" && valEq(w.be.Generic(), gr.val, b.tok) && b.exitStep >= gr.startStep {
				ok = true
			}
		}

		// Waiting for (or being served the stale value during) another Get's update of the same key
		// is the documented stampede protection; the rebuild rule is asserted for Gets that do not
		// overlap any other activity on their key (and in TestC06SkipReadLone).
		if !ok && w.overlapsOtherGet(gr) {
			c.Class("skipread-overlapping")

			continue
		}

		c.Assert(ok, "skipread-served-cached", "SkipRead Get g%d returned %v which no build finishing after its start produced", g.idx, gr.val)

		if buildOf[g.idx] != nil {
			c.Class("skipread-built")
			c.NonTrivial()
			c.Assert(l.stored[gr.key][buildOf[g.idx].tok] || buildOf[g.idx].err != nil, "skipread-not-stored", "SkipRead build result %v was not stored", buildOf[g.idx].tok)
		}
	}
}

// overlapsOtherGet reports whether any other Get of the same key (including its background
// build) was active between start and return of gr.
func (w *world) overlapsOtherGet(gr *getRec) bool {
	first, last := map[string]int{}, map[string]int{}

	note := func(task string, step int) {
		base := task
		for i := 0; i < len(task); i++ {
			if task[i] == '.' {
				base = task[:i]

				break
			}
		}

		if _, ok := first[base]; !ok || step < first[base] {
			first[base] = step
		}

		if step > last[base] {
			last[base] = step
		}
	}

	for _, g := range w.log.gets {
		if g.key == gr.key {
			note(g.task, g.startStep)

			if g.done {
				note(g.task, g.returnStep)
			}
		}
	}

	for _, r := range w.log.be {
		if r.key == gr.key {
			note(r.task, r.step)
		}
	}

	for _, b := range w.log.builds {
		if b.key == gr.key && b.getIdx >= 0 {
			note(b.task, b.enterStep)
			note(b.task, b.exitStep)
		}
	}

	sameKey := map[string]bool{}
	for _, g := range w.log.gets {
		if g.key == gr.key {
			sameKey[g.task] = true
		}
	}

	for task, steps := range w.log.resumes {
		base := task
		for i := 0; i < len(task); i++ {
			if task[i] == '.' {
				base = task[:i]

				break
			}
		}

		if sameKey[base] {
			for _, st := range steps {
				note(task, st)
			}
		}
	}

	for task, f := range first {
		if task == gr.task {
			continue
		}

		if f <= gr.returnStep && last[task] >= gr.startStep {
			return true
		}
	}

	return false
}

const c06cRule = "lone SkipRead Gets: variant x SyncUpdate x SyncRead x initial state {fresh, stale, absent} x caller TTL x failure cached for the key {no, yes}; oracle: the builder is invoked exactly once even though a fresh value exists, Get returns the new token, " +
	"a plain backend read afterwards returns the new token with expiry = now + caller TTL (or backend default); non-trivial = the entry was fresh before the SkipRead Get or a failure was cached for the key"

// TestC06SkipReadLone: SkipRead forces a rebuild whose result is still stored.
func TestC06SkipReadLone(t *testing.T) {
	runCheck(t, "C06", "C06SkipReadLone", c06cRule, func(c *Case) {
		cfg := foCfg{variant: c.Pick("variant", nVariants), syncUpdate: c.Bool("SyncUpdate"), syncRead: c.Bool("SyncRead"), backendTTL: time.Hour, failedUpdateTTL: -1}

		// a failure cached for the key must not stop a SkipRead Get from rebuilding
		prefail := c.Bool("failure-cached")
		if prefail {
			cfg.failedUpdateTTL = []time.Duration{0, 10 * time.Minute}[c.Pick("FailedUpdateTTL", 2)]
			c.Class("failure-cached")
			c.NonTrivial()
		}
		cfg.maxStaleness = []time.Duration{0, 30 * time.Second}[c.Pick("MaxStaleness", 2)]
		state := []int{ksFresh, ksStaleRecent, ksAbsent}[c.Pick("state", 3)]
		callerTTL := []time.Duration{0, 10 * time.Minute, 3 * time.Hour}[c.Pick("callerTTL", 3)]
		sc := &scenario{cfg: cfg, nkeys: 1, states: []int{state}, ages: []time.Duration{time.Nanosecond}, prefail: []bool{prefail}}
		sc.describe(c)

		if state == ksFresh {
			c.NonTrivial()
		}

		c.Bubble(func() {
			w := newWorld(c, cfg)
			w.prepare(sc)

			key := append([]byte{}, scenKeys[0]...)
			ctx := cache.WithSkipRead(context.Background())

			if callerTTL != 0 {
				ctx = cache.WithTTL(ctx, callerTTL, false)
			}

			invoked := 0
			tok := tokenFor(key, "skip", 1)
			t0 := time.Now()
			v, err := w.fe.Get(ctx, key, func(context.Context) (string, error) {
				invoked++

				return tok, nil
			})

			c.Tracef("SkipRead Get = (%v, %v), builder invoked %d times", v, err, invoked)
			c.Assert(invoked == 1, "skipread-no-rebuild", "SkipRead Get on a %s entry invoked the builder %d times, want 1", ksNames[state], invoked)
			c.Assert(err == nil && valEq(w.be.Generic(), v, tok), "skipread-result", "SkipRead Get returned (%v, %v), want the rebuilt value %v", v, err, tok)

			r := w.be.Read(bg, scenKeys[0])
			c.Assert(r.Err == nil && valEq(w.be.Generic(), r.Val, tok), "skipread-not-stored", "plain read after a SkipRead rebuild = (%v, %v), want %v", r.Val, r.Err, tok)

			ttl := callerTTL
			if ttl == 0 {
				ttl = cfg.backendTTL
			}

			_, _ = w.be.Walk(func(_ []byte, _ interface{}, exp time.Time) error {
				c.Assert(exp.Equal(t0.Add(ttl)), "stored-expiry", "rebuilt entry expires at offset %v, want %v", exp.Sub(t0), ttl)

				return nil
			})
			c.Assert(w.fe.KeyLocks() == 0, "leaked-key-lock", "%d key locks held", w.fe.KeyLocks())
		})
	})
}

func itoa(i int) string {
	return string(rune('0' + i))
}
