package harness

import (
	"context"
	"fmt"
	"runtime"
	"sync"
	"sync/atomic"
	"testing"
	"time"

	"github.com/bool64/cache"
)

const c01StressRule = "free-running stress twin (real goroutines, Go scheduler, -race binary): generated configuration, 1-3 keys initially absent/stale, 8-48 goroutines x 2-6 Gets with generated Gosched hints, caller TTLs and failing builders, key buffers overwritten after return, followed by 10-60 cold-key stampedes (all goroutines released from a spin barrier onto a fresh key); " +
	"oracle: atomic per-key in-flight counter in the builder never exceeds 1, every (v,nil) result is a token of the Get's own key, the race detector stays silent, and once all Gets returned and no build is running no key lock remains; " +
	"non-trivial = >=2 builds happened for some key"

// TestC01Stress is the free-running twin of the scheduler-driven Failover checks.
func TestC01Stress(t *testing.T) {
	runCheck(t, "C01", "C01Stress", c01StressRule, func(c *Case) {
		cfg := drawFoCfg(c)
		cfg.logger, cfg.stats = 0, false
		cfg.updateTTL = []time.Duration{time.Millisecond, time.Second}[c.Pick("UpdateTTL", 2)]
		cfg.backendTTL = []time.Duration{time.Hour, 2 * time.Millisecond}[c.Pick("backendTTL", 2)]

		if cfg.failedUpdateTTL > 0 {
			cfg.failedUpdateTTL = time.Millisecond
		}

		if cfg.maxStaleness > 0 {
			cfg.maxStaleness = []time.Duration{time.Millisecond, time.Hour}[c.Pick("ms", 2)]
		}

		nkeys := c.Int("nkeys", 1, 3)
		ng := c.Int("goroutines", 8, 48)
		per := c.Int("gets-per-goroutine", 2, 6)
		failEvery := c.Int("fail-every", 0, 4)
		spin := c.Int("builder-spin", 0, 3)
		c.Tracef("config: %s; %d keys, %d goroutines x %d Gets, fail-every=%d", cfg, nkeys, ng, per, failEvery)

		kind := variantKinds[cfg.variant]
		be := newCaseBackend(c, kind, cache.Config{TimeToLive: cfg.backendTTL, ExpirationJitter: -1, DeleteExpiredJobInterval: farFuture})

		var fe frontend

		if cfg.variant >= 3 {
			fe = foOfAny{f: cache.NewFailoverOf[any](cache.FailoverConfigOf[any]{
				Backend: be.Raw().(cache.ReadWriter), FailedUpdateTTL: cfg.failedUpdateTTL, UpdateTTL: cfg.updateTTL,
				SyncUpdate: cfg.syncUpdate, SyncRead: cfg.syncRead, MaxStaleness: cfg.maxStaleness, FailHard: cfg.failHard,
			}.Use)}
		} else if cfg.variant == 2 {
			fe = foOf{cache.NewFailoverOf[string](cache.FailoverConfigOf[string]{
				Backend: be.Raw().(*cache.ShardedMapOf[string]), FailedUpdateTTL: cfg.failedUpdateTTL, UpdateTTL: cfg.updateTTL,
				SyncUpdate: cfg.syncUpdate, SyncRead: cfg.syncRead, MaxStaleness: cfg.maxStaleness, FailHard: cfg.failHard,
			}.Use)}
		} else {
			fe = foPlain{f: cache.NewFailover(cache.FailoverConfig{
				Backend: be.Raw().(cache.ReadWriter), FailedUpdateTTL: cfg.failedUpdateTTL, UpdateTTL: cfg.updateTTL,
				SyncUpdate: cfg.syncUpdate, SyncRead: cfg.syncRead, MaxStaleness: cfg.maxStaleness, FailHard: cfg.failHard,
			}.Use)}
		}

		c.OnClose(1, fe.Close)

		for k := 0; k < nkeys; k++ {
			if c.Bool("prefill-stale") {
				_ = be.Write(ttlCtx(-time.Second), scenKeys[k], initToken(scenKeys[k]))
			}
		}

		var (
			inflight [3]int32
			builds   [3]int32
			overlap  int32
			running  int32
			badMu    sync.Mutex
			bad      []string
			wg       sync.WaitGroup
			nbuild   int32
		)

		start := make(chan struct{})

		for g := 0; g < ng; g++ {
			g := g

			wg.Add(1)

			go func() {
				defer wg.Done()

				<-start

				for i := 0; i < per; i++ {
					ki := (g + i) % nkeys
					key := scenKeys[ki]
					buf := append([]byte{}, key...)

					ctx := context.Background()
					if (g+i)%5 == 0 {
						ctx = cache.WithTTL(ctx, time.Millisecond, false)
					}

					v, err := fe.Get(ctx, buf, func(context.Context) (string, error) {
						atomic.AddInt32(&running, 1)
						defer atomic.AddInt32(&running, -1)

						if atomic.AddInt32(&inflight[ki], 1) > 1 {
							atomic.StoreInt32(&overlap, 1)
						}

						atomic.AddInt32(&builds[ki], 1)
						n := atomic.AddInt32(&nbuild, 1)

						for s := 0; s < spin; s++ {
							runtime.Gosched()
						}

						atomic.AddInt32(&inflight[ki], -1)

						if failEvery > 0 && int(n)%failEvery == 0 {
							return "", &buildErr{key: string(key), task: fmt.Sprintf("s%d", g), n: int(n)}
						}

						return tokenFor(key, fmt.Sprintf("s%d", g), int(n)), nil
					})

					for j := range buf {
						buf[j] = 0xAA
					}

					if err == nil {
						if tk, ok := tokenKey(v); !ok || tk != string(key) {
							badMu.Lock()
							bad = append(bad, fmt.Sprintf("goroutine %d Get(%s) = (%#v, nil)", g, keyName(key), v))
							badMu.Unlock()
						}
					}

					if (g+i)%3 == 0 {
						runtime.Gosched()
					}
				}
			}()
		}

		close(start)
		wg.Wait()

		c.Assert(atomic.LoadInt32(&overlap) == 0, "overlap", "two builds of one key were in flight at the same time")

		// Cold-key stampedes: all goroutines are released from a spin barrier onto a fresh key, so that
		// several of them race through the key-lock acquisition itself (no call-out inside that window).
		rounds := c.Int("stampede-rounds", 10, 60)
		sg := ng
		if sg > 8 {
			sg = 8
		}

		for r := 0; r < rounds; r++ {
			key := []byte(fmt.Sprintf("stampede-%d", r))

			var (
				in, ready int32
				swg       sync.WaitGroup
			)

			for g := 0; g < sg; g++ {
				swg.Add(1)

				go func() {
					defer swg.Done()

					atomic.AddInt32(&ready, 1)

					// bounded spin: a tight rendezvous when cores are free, no livelock when they are not
					for spins := 0; atomic.LoadInt32(&ready) < int32(sg) && spins < 20000; spins++ {
					}

					_, _ = fe.Get(context.Background(), append([]byte{}, key...), func(context.Context) (string, error) {
						if atomic.AddInt32(&in, 1) > 1 {
							atomic.StoreInt32(&overlap, 1)
						}

						runtime.Gosched()
						atomic.AddInt32(&in, -1)

						return tokenFor(key, "st", r), nil
					})
				}()
			}

			swg.Wait()
		}

		c.Assert(atomic.LoadInt32(&overlap) == 0, "overlap", "cold-key stampede: two builds of one key were in flight at the same time")
		c.Assert(len(bad) == 0, "zero-value-nil-error", "results without provenance: %v", bad)

		// background builds may still run; a lock is leaked only if it outlives every build
		deadline := time.Now().Add(20 * time.Second)
		for fe.KeyLocks() > 0 && time.Now().Before(deadline) {
			time.Sleep(200 * time.Microsecond)
		}

		if fe.KeyLocks() > 0 {
			c.Assert(atomic.LoadInt32(&running) != 0, "leaked-key-lock", "%d key lock(s) remain although no builder is running", fe.KeyLocks())
			c.Class("inconclusive-locks-still-held-with-running-build")
		}

		if rep := newRaceReports(); rep != "" && containsRace(rep) {
			c.Tracef("race report:\n%s", rep)
			c.Failf(raceSignature(rep), "data race during Failover stress:\n%s", firstReport(rep))
		}

		for k := 0; k < nkeys; k++ {
			if atomic.LoadInt32(&builds[k]) >= 2 {
				c.NonTrivial()
			}
		}

		c.Class("variant=" + variantNames[cfg.variant])
	})
}

func containsRace(rep string) bool { return len(rep) > 0 && (indexOf(rep, "DATA RACE") >= 0) }

func indexOf(s, sub string) int {
	for i := 0; i+len(sub) <= len(s); i++ {
		if s[i:i+len(sub)] == sub {
			return i
		}
	}

	return -1
}

func firstReport(rep string) string {
	if i := indexOf(rep[10:], "=================="); i > 0 {
		return rep[:i+10]
	}

	return rep
}
