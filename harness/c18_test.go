package harness

import (
	"context"
	"fmt"
	"runtime"
	"sync"
	"sync/atomic"
	"testing"
	"time"

	"github.com/bool64/cache"
)

const c18aRule = "C07's generated sequential histories on each backend with a counting StatsTracker attached; oracle at the end: cache_hit, cache_miss, cache_expired (reads + entries touched by ExpireAll), cache_write and cache_delete (successful Deletes + DeleteAll counts) each equal the model's own count of those events; " +
	"non-trivial = the history contains an ExpireAll or DeleteAll over >=1 entry, a Delete of a missing key, or a SkipRead read"

const c18bRule = "C02's generated schedules with faults, trackers on the frontend (name fo), its failure cache (err_fo) and the real backend (real); oracle at quiescence: cache_build == builder invocations, cache_failed == failing ones, cache_refreshed == stale re-stores attempted, " +
	"err_fo cache_write == failing builds (failures cached) + prepared failures, real: hit+miss+expired == delegated non-skipped reads + entries touched by external ExpireAll, cache_write == delegated + preparation writes, cache_delete == successful external Deletes; " +
	"non-trivial = a build failed, a refresh happened, or a fault was injected"

// TestC18Backend: backend metrics account for every event exactly once (sequential).
func TestC18Backend(t *testing.T) {
	runCheck(t, "C18", "C18Backend", c18aRule, func(c *Case) {
		kind := backendKinds[c.Pick("backend", len(backendKinds))]
		cfgTTL := cfgTTLs[c.Pick("cfgTTL", len(cfgTTLs))]

		c.Class("backend=" + kind)
		c.Tracef("backend=%s TimeToLive=%v", kind, cfgTTL)

		c.Bubble(func() {
			tr := newCountTracker()
			evict := c.Weighted("eviction", 2, 1) == 1

			cfg := cache.Config{
				Name: "m", Stats: tr, ItemsCountReportInterval: farFuture,
				TimeToLive: cfgTTL, ExpirationJitter: -1,
				DeleteExpiredJobInterval: farFuture, DeleteExpiredAfter: farFuture,
			}
			if evict {
				// evictions are counted by cache_evict only
				cfg.CountSoftLimit, cfg.EvictFraction = 3, []float64{0.5, 1, 0.1}[c.Weighted("EvictFraction", 2, 1, 1)]
				cfg.EvictionStrategy = cache.EvictionStrategy(c.Pick("strategy", 3))
				c.Class("eviction-enabled")
			} else {
				// no cleanup cycle ever runs here: how long ago an entry expired changes nothing about how a read of it counts
				cfg.DeleteExpiredAfter = []time.Duration{farFuture, 0, time.Second, time.Nanosecond}[c.Pick("DeleteExpiredAfter", 4)]
			}

			be := newCaseBackend(c, kind, cfg)
			d := newMapDriver(c, be, cfgTTL, -1)
			d.evictable = evict
			keys := baseKeys

			// now and then the alphabet holds keys with equal 64-bit hashes: a read that finds the slot of
			// its hash taken by another key is a read like any other (counted as a miss)
			if !evict && c.Weighted("colliding-keys", 3, 1) == 1 {
				keys, d.family = drawCollisionFamilies(c)
				c.Class("keys-with-equal-hashes")
			}

			backendOps(c, d, keys, c.Int("nops", 5, 60))

			if c.classes["expireall-over-never-expiring"] || c.classes["deleteall"] || c.classes["delete-missing"] || c.classes["skipread"] {
				c.NonTrivial()
			}

			for _, m := range []struct {
				metric string
				want   float64
			}{
				{cache.MetricHit, d.cnt.hit}, {cache.MetricMiss, d.cnt.miss}, {cache.MetricExpired, d.cnt.expired},
				{cache.MetricWrite, d.cnt.writes}, {cache.MetricDelete, d.cnt.deletes}, {cache.MetricEvict, d.evicted},
			} {
				got := tr.get("m", m.metric)
				c.Tracef("%s = %v, model %v (evicted %v)", m.metric, got, m.want, d.evicted)
				if m.metric == cache.MetricExpired {
					c.Assert(got <= m.want && got >= m.want-d.cnt.expiredSlack, "metric:"+m.metric, "%s = %v after the history, the model counted %v such events (of which %v are already expired entries hit by ExpireAll, which may or may not count)", m.metric, got, m.want, d.cnt.expiredSlack)

					continue
				}

				c.Assert(got == m.want, "metric:"+m.metric, "%s = %v after the history, the model counted %v such events", m.metric, got, m.want)
			}
		})
	})
}

// TestC18Failover: frontend metrics account for every event exactly once under any interleaving.
func TestC18Failover(t *testing.T) {
	runCheck(t, "C18", "C18Failover", c18bRule, func(c *Case) {
		propFailoverSched(c, scenOpts{
			maxKeys: 3, minGets: 1, maxGets: 6, skipRead: true, clock: 3, external: 2, prefail: true, postActions: true, faults: 2, failPct: 40,
			forceCfg: func(cfg *foCfg) { cfg.stats = true },
		}, func(w *world, sc *scenario, complete bool) {
			if !complete {
				return
			}

			l := w.log
			builds, failed := 0.0, 0.0

			for _, b := range l.builds {
				if b.getIdx >= 0 {
					builds++

					if b.err != nil {
						failed++
					}
				}
			}

			tokens := map[string]bool{}
			for _, b := range l.builds {
				if b.tok != "" {
					tokens[b.task+"|"+b.tok] = true
				}
			}

			refreshed, refreshedOK, realReads, realWrites := 0.0, 0.0, 0.0, 0.0

			for _, r := range l.be {
				switch r.op {
				case "read":
					if !r.fault && !r.skip {
						realReads++
					}
				case "write":
					s, _ := r.val.(string)
					if !tokens[r.task+"|"+s] {
						refreshed++ // a store that is not the final store of the build made by this goroutine

						if r.err == nil {
							refreshedOK++
						}
					}

					if !r.fault {
						realWrites++
					}
				}
			}

			if failed > 0 || refreshed > 0 || c.classes["fault-read"] || c.classes["fault-write"] {
				c.NonTrivial()
			}

			check := func(name, metric string, want float64) {
				got := w.ct.get(name, metric)
				c.Tracef("%s/%s = %v, log says %v", name, metric, got, want)
				c.Assert(got == want, "metric:"+name+"/"+metric, "%s{name=%s} = %v at quiescence, the harness log counted %v", metric, name, got, want)
			}

			check("fo", cache.MetricBuild, builds)
			check("fo", cache.MetricFailed, failed)
			// "stale re-stores": a re-store whose backend write failed may or may not count.
			gotRefreshed := w.ct.get("fo", cache.MetricRefreshed)
			c.Assert(gotRefreshed >= refreshedOK && gotRefreshed <= refreshed, "metric:fo/cache_refreshed",
				"cache_refreshed = %v at quiescence, the log has %v successful and %v attempted stale re-stores", gotRefreshed, refreshedOK, refreshed)

			if sc.cfg.failedUpdateTTL != -1 {
				check("err_fo", cache.MetricWrite, failed+float64(w.prefailWrites))
			}

			got := w.ct.get("real", cache.MetricHit) + w.ct.get("real", cache.MetricMiss) + w.ct.get("real", cache.MetricExpired)
			want := realReads + float64(w.extExpired)
			c.Assert(got <= want && got >= want-float64(w.extExpiredSlack), "metric:real/reads", "real backend hit+miss+expired = %v, delegated non-skipped reads + entries touched by ExpireAll = %v (%d of them already expired before, which may or may not count)", got, want, w.extExpiredSlack)
			check("real", cache.MetricWrite, realWrites+float64(w.prepWrites))
			check("real", cache.MetricDelete, float64(w.extDeleted))
		})
	})
}

const c18cRule = "free-running concurrent workloads on each backend with a counting tracker and a logger capturing the counts reported by ExpireAll/DeleteAll: 2-8 goroutines x 5-40 ops {Write of a UNIQUE key, Read, SkipRead Read, Delete, ExpireAll, DeleteAll, Len, Walk}; " +
	"oracle at quiescence: cache_write == writes issued; hit+miss+expired == non-skipped reads + sum of ExpireAll counts; cache_delete == successful Deletes + sum of DeleteAll counts; conservation: every write creates an entry (unique keys, no eviction) so cache_write - cache_delete == Len(); " +
	"non-trivial = a DeleteAll or ExpireAll ran concurrently with >=2 writer goroutines"

type batchLogger struct {
	mu                  sync.Mutex
	expiredAll, deleted float64
}

func (l *batchLogger) Error(context.Context, string, ...interface{}) {}
func (l *batchLogger) Important(_ context.Context, msg string, kv ...interface{}) {
	cnt := 0.0

	for i := 0; i+1 < len(kv); i += 2 {
		if kv[i] == "count" {
			if n, ok := kv[i+1].(int); ok {
				cnt = float64(n)
			}
		}
	}

	l.mu.Lock()
	defer l.mu.Unlock()

	switch msg {
	case "expired all entries in cache":
		l.expiredAll += cnt
	case "deleted all entries in cache":
		l.deleted += cnt
	}
}

// TestC18Concurrent: metrics account for every event exactly once under concurrency.
func TestC18Concurrent(t *testing.T) {
	runCheck(t, "C18", "C18Concurrent", c18cRule, func(c *Case) {
		kind := backendKinds[c.Pick("backend", len(backendKinds))]
		ng := c.Int("goroutines", 2, 8)

		type op struct{ kind, arg int }

		prog := make([][]op, ng)
		batch := false

		for g := range prog {
			n := c.Int("nops", 5, 40)
			for i := 0; i < n; i++ {
				o := op{kind: c.Weighted("op", 10, 6, 1, 4, 1, 2, 1, 1), arg: c.Int("arg", 0, 63)}
				if o.kind == 4 || o.kind == 5 {
					batch = true
				}

				prog[g] = append(prog[g], o)
			}
		}

		c.Class("backend=" + kind)

		if batch && ng >= 3 {
			c.NonTrivial()
		}

		tr := newCountTracker()
		lg := &batchLogger{}
		be := newCaseBackend(c, kind, cache.Config{
			Name: "cc", Stats: tr, Logger: lg, ItemsCountReportInterval: farFuture, TimeToLive: time.Hour, ExpirationJitter: -1,
			DeleteExpiredJobInterval: farFuture, DeleteExpiredAfter: farFuture,
		})

		var (
			wg                       sync.WaitGroup
			writes, reads, deletesOK int64
			start                    = make(chan struct{})
		)

		for g := range prog {
			g := g

			wg.Add(1)

			go func() {
				defer wg.Done()

				<-start

				mine := 0

				for i, o := range prog[g] {
					switch o.kind {
					case 0: // unique key
						_ = be.Write(bg, []byte(fmt.Sprintf("u-%d-%d", g, mine)), "v")
						mine++

						atomic.AddInt64(&writes, 1)
					case 1:
						be.Read(bg, []byte(fmt.Sprintf("u-%d-%d", o.arg%len(prog), o.arg%8)))
						atomic.AddInt64(&reads, 1)
					case 2:
						be.Read(cache.WithSkipRead(bg), []byte(fmt.Sprintf("u-%d-%d", g, 0)))
					case 3:
						if be.Delete(bg, []byte(fmt.Sprintf("u-%d-%d", o.arg%len(prog), o.arg%8))) == nil {
							atomic.AddInt64(&deletesOK, 1)
						}
					case 4:
						be.ExpireAll(bg)
					case 5:
						be.DeleteAll(bg)
					case 6:
						be.Len()
					case 7:
						_, _ = be.Walk(func([]byte, interface{}, time.Time) error { return nil })
					}

					if (g+i)%4 == 0 {
						runtime.Gosched()
					}
				}
			}()
		}

		close(start)
		wg.Wait()

		w := tr.get("cc", cache.MetricWrite)
		d := tr.get("cc", cache.MetricDelete)
		r := tr.get("cc", cache.MetricHit) + tr.get("cc", cache.MetricMiss) + tr.get("cc", cache.MetricExpired)
		c.Tracef("writes=%d reads=%d deletesOK=%d expireAllCounts=%v deleteAllCounts=%v; metrics write=%v delete=%v hit+miss+expired=%v Len=%d",
			writes, reads, deletesOK, lg.expiredAll, lg.deleted, w, d, r, be.Len())
		c.Assert(w == float64(writes), "metric:cache_write", "cache_write = %v, %d writes were issued", w, writes)
		c.Assert(r == float64(reads)+lg.expiredAll, "metric:reads", "hit+miss+expired = %v, %d non-skipped reads + %v entries reported by ExpireAll", r, reads, lg.expiredAll)
		c.Assert(d == float64(deletesOK)+lg.deleted, "metric:cache_delete", "cache_delete = %v, %d successful Deletes + %v entries reported by DeleteAll", d, deletesOK, lg.deleted)
		c.Assert(w-d == float64(be.Len()), "metric:conservation", "cache_write - cache_delete = %v but %d entries remain (every write created a new entry, nothing is evicted)", w-d, be.Len())
	})
}
