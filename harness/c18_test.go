package harness

import (
	"testing"

	"github.com/bool64/cache"
)

const c18aRule = "C07's generated sequential histories on each backend with a counting StatsTracker attached; oracle at the end: cache_hit, cache_miss, cache_expired (reads + entries touched by ExpireAll), cache_write and cache_delete (successful Deletes + DeleteAll counts) each equal the model's own count of those events; " +
	"non-trivial = the history contains an ExpireAll or DeleteAll over >=1 entry, a Delete of a missing key, or a SkipRead read"

const c18bRule = "C02's generated schedules with faults, trackers on the frontend (name fo), its failure cache (err_fo) and the real backend (real); oracle at quiescence: cache_build == builder invocations, cache_failed == failing ones, cache_refreshed == stale re-stores attempted, " +
	"err_fo cache_write == failing builds (failures cached) + prepared failures, real: hit+miss+expired == delegated non-skipped reads + entries touched by external ExpireAll, cache_write == delegated + preparation writes, cache_delete == successful external Deletes; " +
	"non-trivial = a build failed, a refresh happened, or a fault was injected"

// TestC18Backend: backend metrics account for every event exactly once (sequential).
func TestC18Backend(t *testing.T) {
	runCheck(t, "C18", "C18Backend", c18aRule, func(c *Case) {
		kind := backendKinds[c.Pick("backend", len(backendKinds))]
		cfgTTL := cfgTTLs[c.Pick("cfgTTL", len(cfgTTLs))]

		c.Class("backend=" + kind)
		c.Tracef("backend=%s TimeToLive=%v", kind, cfgTTL)

		c.Bubble(func() {
			tr := newCountTracker()
			be := newCaseBackend(c, kind, cache.Config{
				Name: "m", Stats: tr, ItemsCountReportInterval: farFuture,
				TimeToLive: cfgTTL, ExpirationJitter: -1,
				DeleteExpiredJobInterval: farFuture, DeleteExpiredAfter: farFuture,
			})
			d := newMapDriver(c, be, cfgTTL, -1)
			backendOps(c, d, baseKeys, c.Int("nops", 5, 60))

			if c.classes["expireall-over-never-expiring"] || c.classes["deleteall"] || c.classes["delete-missing"] || c.classes["skipread"] {
				c.NonTrivial()
			}

			for _, m := range []struct {
				metric string
				want   float64
			}{
				{cache.MetricHit, d.cnt.hit}, {cache.MetricMiss, d.cnt.miss}, {cache.MetricExpired, d.cnt.expired},
				{cache.MetricWrite, d.cnt.writes}, {cache.MetricDelete, d.cnt.deletes},
			} {
				got := tr.get("m", m.metric)
				c.Tracef("%s = %v, model %v", m.metric, got, m.want)
				c.Assert(got == m.want, "metric:"+m.metric, "%s = %v after the history, the model counted %v such events", m.metric, got, m.want)
			}
		})
	})
}

// TestC18Failover: frontend metrics account for every event exactly once under any interleaving.
func TestC18Failover(t *testing.T) {
	runCheck(t, "C18", "C18Failover", c18bRule, func(c *Case) {
		propFailoverSched(c, scenOpts{
			maxKeys: 3, minGets: 1, maxGets: 6, skipRead: true, clock: 3, external: 2, prefail: true, postActions: true, faults: 2, failPct: 40,
			forceCfg: func(cfg *foCfg) { cfg.stats = true },
		}, func(w *world, sc *scenario, complete bool) {
			if !complete {
				return
			}

			l := w.log
			builds, failed := 0.0, 0.0

			for _, b := range l.builds {
				if b.getIdx >= 0 {
					builds++

					if b.err != nil {
						failed++
					}
				}
			}

			tokens := map[string]bool{}
			for _, b := range l.builds {
				if b.tok != "" {
					tokens[b.task+"|"+b.tok] = true
				}
			}

			refreshed, refreshedOK, realReads, realWrites := 0.0, 0.0, 0.0, 0.0

			for _, r := range l.be {
				switch r.op {
				case "read":
					if !r.fault && !r.skip {
						realReads++
					}
				case "write":
					s, _ := r.val.(string)
					if !tokens[r.task+"|"+s] {
						refreshed++ // a store that is not the final store of the build made by this goroutine

						if r.err == nil {
							refreshedOK++
						}
					}

					if !r.fault {
						realWrites++
					}
				}
			}

			if failed > 0 || refreshed > 0 || c.classes["fault-read"] || c.classes["fault-write"] {
				c.NonTrivial()
			}

			check := func(name, metric string, want float64) {
				got := w.ct.get(name, metric)
				c.Tracef("%s/%s = %v, log says %v", name, metric, got, want)
				c.Assert(got == want, "metric:"+name+"/"+metric, "%s{name=%s} = %v at quiescence, the harness log counted %v", metric, name, got, want)
			}

			check("fo", cache.MetricBuild, builds)
			check("fo", cache.MetricFailed, failed)
			// "stale re-stores": a re-store whose backend write failed may or may not count.
			gotRefreshed := w.ct.get("fo", cache.MetricRefreshed)
			c.Assert(gotRefreshed >= refreshedOK && gotRefreshed <= refreshed, "metric:fo/cache_refreshed",
				"cache_refreshed = %v at quiescence, the log has %v successful and %v attempted stale re-stores", gotRefreshed, refreshedOK, refreshed)

			if sc.cfg.failedUpdateTTL != -1 {
				check("err_fo", cache.MetricWrite, failed+float64(w.prefailWrites))
			}

			got := w.ct.get("real", cache.MetricHit) + w.ct.get("real", cache.MetricMiss) + w.ct.get("real", cache.MetricExpired)
			want := realReads + float64(w.extExpired)
			c.Assert(got == want, "metric:real/reads", "real backend hit+miss+expired = %v, delegated non-skipped reads + entries touched by ExpireAll = %v", got, want)
			check("real", cache.MetricWrite, realWrites+float64(w.prepWrites))
			check("real", cache.MetricDelete, float64(w.extDeleted))
		})
	})
}
