package harness

import (
	"errors"
	"testing"
	"time"

	"github.com/bool64/cache"
)

const farFuture = 1000000 * time.Hour // janitor interval that never fires within a case

var (
	cfgTTLs    = []time.Duration{0, time.Hour, cache.UnlimitedTTL, 90 * time.Second, time.Nanosecond}
	cfgJitters = []float64{-1, 0, 0.5, 1}
	callTTLs   = []time.Duration{0, time.Hour, time.Nanosecond, -time.Nanosecond, -time.Hour, 90 * time.Second, -60 * 365 * 24 * time.Hour}
)

const c07Rule = "rapid state machine: 5-60 ops (Write/Store/Read/Load/SkipRead/Delete/ExpireAll/DeleteAll/Walk+Len/Advance) over a 9-key alphabet " +
	"(empty, binary, 300-byte, shared-prefix, same-shard keys), config TTL x jitter x backend drawn per case, every result compared with refMap; " +
	"non-trivial = the case contains a read of an expired entry, a Delete of a missing key, a rewrite after expiry, or ExpireAll over a never-expiring entry; " +
	"distinct = distinct choice sequences"

// TestC07BackendModel: backends behave as a map with per-entry expiry (sequential model).
func TestC07BackendModel(t *testing.T) {
	runCheck(t, "C07", "C07BackendModel", c07Rule, propBackendModel)
}

func propBackendModel(c *Case) {
	kind := backendKinds[c.Pick("backend", len(backendKinds))]
	cfgTTL := cfgTTLs[c.Pick("cfgTTL", len(cfgTTLs))]
	jit := cfgJitters[c.Pick("jitter", len(cfgJitters))]

	c.Class("backend=" + kind)
	c.Tracef("backend=%s TimeToLive=%v ExpirationJitter=%v", kind, cfgTTL, jit)

	c.Bubble(func() {
		if jit >= 0 {
			c.SeedJitter()
		}

		cfg := cache.Config{
			TimeToLive: cfgTTL, ExpirationJitter: jit, ItemsCountReportInterval: farFuture,
			// no limit is configured, nothing is ever evicted: the strategy only changes what reads and writes keep track of
			EvictionStrategy: cache.EvictionStrategy(c.Weighted("EvictionStrategy", 2, 1, 1)),
			// the janitor never runs: an entry is an entry however long ago it expired
			DeleteExpiredJobInterval: farFuture, DeleteExpiredAfter: []time.Duration{farFuture, 0, time.Second, time.Nanosecond}[c.Pick("DeleteExpiredAfter", 4)],
		}

		// an observed cache (debug logger / stats tracker) takes the instrumented code paths
		switch c.Weighted("observed", 3, 1, 1) {
		case 1:
			cfg.Logger = sinkLogger{}
			c.Class("with-debug-logger")
		case 2:
			cfg.Logger, cfg.Stats = sinkLogger{}, newCountTracker()
			c.Class("with-debug-logger-and-stats")
		}

		be := newCaseBackend(c, kind, cfg)
		d := newMapDriver(c, be, cfgTTL, jit)
		keys := baseKeys

		// now and then two keys whose hashes agree in half of their bits (not collisions: two ordinary keys)
		if c.Weighted("partial-hash-pair", 3, 1) == 1 {
			pp := partialPairs[c.Pick("pair", len(partialPairs))]
			keys = append(append([][]byte{}, baseKeys[:4]...), pp[0], pp[1])
			c.Class("keys-with-partially-equal-hashes")
		}

		backendOps(c, d, keys, c.Int("nops", 5, 60))
		d.compareAll()
	})
}

// backendOps drives nops generated operations through d.
func backendOps(c *Case, d *mapDriver, keys [][]byte, nops int) {
	be := d.be

	pickKey := func() []byte { return keys[c.Pick("key", len(keys))] }

	// one case in 25 works on a large population (sizes a 9-key alphabet never reaches)
	allowBulk := c.Weighted("bulk-case", 24, 1) == 1
	wChurn := 0
	if c.Weighted("churn-case", 9, 1) == 1 {
		wChurn = 3 // one case in ten contains long write/delete histories
	}

	for i := 0; i < nops; i++ {
		wCleanup := 0
		if d.evictable {
			wCleanup = 2
		}

		wBulk := 0
		if allowBulk && !d.bulked {
			wBulk = 4
		}

		switch c.Weighted("op", 6, 6, 3, 2, 2, 1, 2, 3, 2, 1, 1, wCleanup, 2, wBulk, wChurn) {
		case 13: // a large population written at once: sizes that a 9-key alphabet never reaches
			n := []int{150, 700, 5000, 12000}[c.Weighted("bulk-n", 4, 3, 2, 1)]
			d.bulk(n, c.Weighted("bulk-same-shard", 2, 1) == 1, callTTLs[c.Pick("ttl", len(callTTLs))])
			d.compareAll()

			// most of the population goes again, key by key (containers that shrink after mass deletions)
			if c.Weighted("bulk-then-delete-most", 2, 1) == 1 {
				d.bulkDelete([]float64{0.8, 0.97}[c.Pick("share", 2)])
				d.compareAll()
			}
		case 14: // a long history that leaves the contents unchanged
			d.churn(sameShardPool[c.Pick("churn-key", 3)], []int{20, 300, 1100, 2500}[c.Weighted("churn-n", 3, 2, 2, 1)])
		case 12: // label a key in the backend's invalidation index / invalidate the label
			if c.Weighted("label-op", 3, 1) == 0 {
				d.label(pickKey())
			} else {
				d.invalidate()
				d.compareAll()
			}
		case 0: // Write
			k := pickKey()
			ttl := callTTLs[c.Pick("ttl", len(callTTLs))]

			var v interface{}
			if c.Weighted("val", 8, 1) == 0 {
				v = d.value(k)
			} else {
				c.Class("zero-value-written")
			}

			if kind, _ := d.ref.read(time.Now(), k); kind == rkExpired {
				c.Class("rewrite-after-expiry")
				c.NonTrivial()
			}

			if ttl < 0 {
				c.Class("negative-ttl")
			}

			d.write(k, v, ttl, false)
		case 1: // Read
			k := pickKey()
			if kind, _ := d.ref.read(time.Now(), k); kind == rkExpired {
				c.Class("read-expired")
				c.NonTrivial()
			}

			d.read(k, false, false)
		case 2: // Delete
			k := pickKey()
			if _, ok := d.ref.m[string(k)]; !ok {
				c.Class("delete-missing")
				c.NonTrivial()
			}

			d.del(k)
		case 3: // Read under SkipRead
			c.Class("skipread")
			d.read(pickKey(), true, false)
		case 4: // ExpireAll
			for _, e := range d.ref.m {
				if e.e == 0 {
					c.Class("expireall-over-never-expiring")
					c.NonTrivial()
				}
			}

			d.expireAll()
			// A read at the very same nanosecond still sees E == now; step the clock so that
			// "every entry is expired" is observable.
			time.Sleep(time.Nanosecond)

			d.noNoise = true
			for k := range d.ref.m {
				d.read([]byte(k), false, false)
			}
			d.noNoise = false
		case 5: // DeleteAll
			c.Class("deleteall")
			d.deleteAll()
		case 6: // Walk + Len
			d.compareAll()
		case 7: // Advance the fake clock
			advanceClock(c, d)
		case 8: // Load / Store
			if !be.HasLoadStore() {
				d.read(pickKey(), false, false)

				break
			}

			c.Class("load-store")

			k := pickKey()
			if c.Bool("store") {
				d.write(k, d.value(k), 0, true)
			} else {
				d.read(k, false, true)
			}
		case 11: // cleanup cycle with eviction (only when the driver is told a limit is configured)
			d.cleanupCycle()
		case 10: // Walk aborted by the callback: stops at once, reports the callback's error and the entries processed
			d.walkAbort(c.Int("abort-after", 0, 3))
		case 9: // Len only
			l := be.Len()
			c.Assert(l == len(d.ref.m)-len(d.lossy) || (len(d.lossy) > 0 && l <= len(d.ref.m)), "len",
				"Len() = %d, model holds %d entries", l, len(d.ref.m))
		}
	}
}

// advanceClock moves the fake clock: 1ns, exactly to / just past an entry's expiry, 1h, 1 year.
func advanceClock(c *Case, d *mapDriver) {
	now := time.Now().UnixNano()

	var future []int64

	for _, e := range d.ref.m {
		if e.e > now {
			future = append(future, e.e)
		}
	}

	sortInt64(future)

	w := c.Weighted("advance", 2, 3, 3, 2, 1)
	if len(future) == 0 && (w == 1 || w == 2) {
		w = 3
	}

	var dur time.Duration

	switch w {
	case 0:
		dur = time.Nanosecond
	case 1:
		dur = time.Duration(future[c.Pick("which", len(future))] - now)
		c.Class("advance-to-exact-expiry")
	case 2:
		dur = time.Duration(future[c.Pick("which", len(future))]-now) + time.Nanosecond
		c.Class("advance-just-past-expiry")
	case 3:
		dur = time.Hour
	case 4:
		dur = 365 * 24 * time.Hour
	}

	time.Sleep(dur)
	c.Tracef("Advance(%v) -> now=%d", dur, time.Now().UnixNano())
}

const c07bRule = "aborted Walk / Dump (callback or writer fails after k entries) followed by one of every mutating operation on all keys, outside a bubble with a generous real-time watchdog (20 s for microsecond operations); oracle: every operation completes (no lock is left behind) and the results agree with refMap; " +
	"non-trivial = the walk was aborted before its end"

// TestC07AbortedWalk: a Walk stopped by its callback leaves the backend fully usable.
func TestC07AbortedWalk(t *testing.T) {
	runCheck(t, "C07", "C07AbortedWalk", c07bRule, func(c *Case) {
		kind := backendKinds[c.Pick("backend", len(backendKinds))]
		be := newCaseBackend(c, kind, cache.Config{ExpirationJitter: -1, DeleteExpiredJobInterval: farFuture, DeleteExpiredAfter: farFuture})
		d := newMapDriver(c, be, 0, -1)
		n := c.Int("entries", 1, len(baseKeys))

		for i := 0; i < n; i++ {
			d.write(baseKeys[i], d.token(baseKeys[i]), 0, false)
		}

		k := c.Int("abort-after", 0, n)
		viaDump := c.Bool("via-dump")

		if k < n {
			c.NonTrivial()
		}

		done := make(chan interface{}, 1)

		go func() {
			// oracle failures raised here are handed over to the case goroutine
			defer func() { done <- recover() }()

			if viaDump {
				_, _ = be.Dump(&failingWriter{left: 40 * k})
			} else {
				d.walkAbort(k)
			}

			// every kind of mutation on every shard that holds data
			for i := 0; i < n; i++ {
				d.write(baseKeys[i], d.token(baseKeys[i]), 0, false)
				d.del(baseKeys[i])
				d.write(baseKeys[i], d.token(baseKeys[i]), time.Hour, false)
			}

			d.expireAll()
			be.Cleanup()
			d.deleteAll()
		}()

		select {
		case r := <-done:
			if r != nil {
				panic(r)
			}
		case <-time.After(20 * time.Second):
			c.Failf("lock-left-behind", "%s: operations after a Walk aborted at entry %d of %d (via Dump=%v) did not complete within 20 s: a lock is still held", kind, k, n, viaDump)
		}

		d.compareAll()
	})
}

type failingWriter struct{ left int }

func (w *failingWriter) Write(p []byte) (int, error) {
	if w.left <= 0 {
		return 0, errors.New("writer failed")
	}

	w.left -= len(p)

	return len(p), nil
}
