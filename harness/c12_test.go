package harness

import (
	"bytes"
	"fmt"
	"math"
	"sort"
	"testing"
	"testing/synctest"
	"time"

	"github.com/bool64/cache"
)

const c12Rule = "fake clock + REAL janitor: backend x strategy {MostExpired, LRU, LFU} x trigger {CountSoftLimit L in 1..60 with n from below L to 5L, scripted EvictionNeeded, HeapInUseSoftLimit 1 (always) / huge (never), none} " +
	"x EvictFraction {default, (0,1]}; population with generated expiries (ties included), generated fresh-read histories at distinct instants (LRU) or with counts (LFU); 1-3 cleanup cycles with refills; " +
	"oracle: no breach => nothing removed; breach => amount formula within one entry, max metric(removed) <= min metric(kept), cache_evict == removed, Len unchanged 1ns before the tick; " +
	"non-trivial = a breaching cycle with >=2 distinct metric values on both sides of the cut"

// TestC12Eviction: eviction fires only on limit breach, removes the right amount in strategy order.
func TestC12Eviction(t *testing.T) {
	runCheck(t, "C12", "C12Eviction", c12Rule, propEviction)
}

type evEntry struct {
	key    string
	metric int64
	expiry int64
}

func propEviction(c *Case) {
	kind := backendKinds[c.Pick("backend", len(backendKinds))]
	strategy := cache.EvictionStrategy(c.Pick("strategy", 3))
	stratName := [...]string{"MostExpired", "LRU", "LFU"}[strategy]

	var (
		limit      uint64
		heapLimit  uint64
		needScript []bool
		useNeeded  bool
	)

	var sysLimit uint64

	// cycles are normally invoked one by one through the VerifCleanup hook (exact instants); with the
	// REAL janitor the phase of its cycles is not assumed, only that they are one interval apart:
	// then one idempotent trigger (count limit / unreached limits) and one waiting period are used
	realJanitor := c.Weighted("cycle-driver", 3, 1) == 1

	trigger := c.Weighted("trigger", 5, 2, 1, 1, 1, 1)
	if realJanitor && (trigger == 1 || trigger == 2) {
		trigger = 0
	}

	switch trigger {
	case 0:
		limit = uint64(c.Int("L", 1, 60))
	case 1:
		useNeeded = true
	case 2:
		heapLimit = 1
	case 3:
		heapLimit = math.MaxUint64 / 2
	case 5:
		sysLimit = math.MaxUint64 / 2 // configured but never exceeded
	}

	// a memory limit that is configured but never exceeded must not change anything
	if trigger <= 1 && c.Weighted("unreached-memory-limit", 3, 1, 1) > 0 {
		if c.Bool("which-memory-limit") {
			sysLimit = math.MaxUint64 / 2
		} else {
			heapLimit = math.MaxUint64 / 2
		}
	}

	if trigger == 0 && !realJanitor && c.Weighted("also", 3, 1) == 1 {
		useNeeded = true
	}

	var frac float64
	if c.Weighted("frac", 1, 4) == 1 {
		frac = float64(c.Int("frac.pct", 1, 100)) / 100
	}

	effFrac := frac
	if effFrac == 0 {
		effFrac = 0.1
	}

	cycles := c.Int("cycles", 1, 3)
	if realJanitor {
		cycles = 1
		c.Class("cycles=real-janitor")
	} else {
		c.Class("cycles=hook")
	}

	for i := 0; i < cycles; i++ {
		needScript = append(needScript, useNeeded && c.Bool("needed"))
	}

	c.Class("backend=" + kind)
	c.Class("strategy=" + stratName)
	c.Class(fmt.Sprintf("trigger=%d", trigger))
	c.Tracef("backend=%s strategy=%s CountSoftLimit=%d HeapInUseSoftLimit=%d SysMemSoftLimit=%d EvictionNeeded=%v EvictFraction=%v cycles=%d",
		kind, stratName, limit, heapLimit, sysLimit, needScript, frac, cycles)

	// the items-count reporter may publish between cleanup cycles (a cycle must use the current count)
	reportInterval := farFuture
	if c.Weighted("items-report", 2, 1) == 1 {
		reportInterval = 25 * time.Minute
		c.Class("items-count-reported-between-cycles")
	}

	// without Stats (and without a debug logger) backends may take leaner code paths
	withStats := c.Weighted("stats", 1, 2) == 1
	if !withStats {
		c.Class("no-stats")
	}

	// MostExpired ranks by the stored expiry however it got there: also in a cache with UnlimitedTTL whose
	// entries carry expiries from per-call TTLs or from a restored dump
	cfgTTL := 1000 * time.Hour
	if strategy == cache.EvictMostExpired && c.Weighted("unlimited-ttl", 2, 1) == 1 {
		cfgTTL = cache.UnlimitedTTL
		c.Class("TimeToLive=Unlimited")
	}

	// entries expired longer than DeleteExpiredAfter are deleted by the cycle BEFORE the limits are
	// looked at: they neither count for a breach nor for the amount
	dea := farFuture
	if !realJanitor && c.Weighted("DeleteExpiredAfter", 2, 1) == 1 {
		dea = 25 * time.Minute
		c.Class("long-expired-entries-at-cycle")
	}

	c.Bubble(func() {
		tr := newCountTracker()
		interval := time.Hour
		jobInterval := interval

		if !realJanitor {
			jobInterval = 2 * farFuture
		}

		neededCalls := 0
		cycle := 0

		cfg := cache.Config{
			Name: "ev", ItemsCountReportInterval: reportInterval,
			TimeToLive: cfgTTL, ExpirationJitter: -1,
			DeleteExpiredJobInterval: jobInterval, DeleteExpiredAfter: dea,
			CountSoftLimit: limit, HeapInUseSoftLimit: heapLimit, SysMemSoftLimit: sysLimit, EvictFraction: frac, EvictionStrategy: strategy,
		}
		if withStats {
			cfg.Stats = tr
		}

		if useNeeded {
			cfg.EvictionNeeded = func() bool {
				neededCalls++

				return needScript[cycle]
			}
		}

		t0 := time.Now()
		be := newCaseBackend(c, kind, cfg)
		synctest.Wait()

		pop := map[string]*evEntry{}
		nkey := 0
		lateDeletes := 0

		for cycle = 0; cycle < cycles; cycle++ {
			// (Re)fill the population.
			var n int

			if limit > 0 {
				switch c.Weighted("size", 2, 2, 3, 2) {
				case 0:
					n = c.Int("n", 0, int(limit))
				case 1:
					n = int(limit) + 1
				case 2:
					n = int(limit) + c.Int("over", 1, int(limit)+3)
				case 3:
					n = int(limit) * c.Int("times", 2, 5)
				}
			} else {
				n = c.Int("n", 0, 80)
			}

			// the refill may arrive as a dump of another instance (entries keep their expiries)
			var src Backend

			if c.Weighted("populate-via-restore", 3, 1) == 1 && len(pop) < n {
				src = newCaseBackend(c, kind, cache.Config{
					TimeToLive: 1000 * time.Hour, ExpirationJitter: -1, DeleteExpiredJobInterval: farFuture, DeleteExpiredAfter: farFuture,
					ItemsCountReportInterval: farFuture,
				})

				c.Class("populated-via-Restore")
			}

			for len(pop) < n {
				nkey++
				k := fmt.Sprintf("k%03d", nkey)
				e := &evEntry{key: k}
				ttl := time.Duration(0)

				if strategy == cache.EvictMostExpired {
					// distinct-ish expiries with deliberate ties; may already be expired.
					ttl = time.Duration(c.Int("ttl", -5, 40)) * time.Minute
					if ttl == 0 {
						ttl = time.Second
					}

					e.metric = time.Now().Add(ttl).UnixNano()
				} else if c.Weighted("short-lived", 3, 1) == 1 {
					// served while fresh, expired (but not deleted) by the time of the cleanup cycle:
					// the rank is still the one earned by the fresh serves
					ttl = 30 * time.Minute
					c.Class("entry-expires-before-cycle")
				}

				if ttl != 0 {
					e.expiry = time.Now().Add(ttl).UnixNano()
				} else {
					e.expiry = time.Now().Add(1000 * time.Hour).UnixNano()
				}

				target := be
				if src != nil {
					target = src
				}

				err := target.Write(ttlCtx(ttl), []byte(k), "v"+k)
				c.Assert(err == nil, "write-error", "Write: %v", err)
				pop[k] = e
			}

			if src != nil {
				var buf bytes.Buffer

				nd, err := src.Dump(&buf)
				c.Assert(err == nil, "dump-error", "Dump: %v", err)

				nr, err := be.Restore(&buf)
				c.Assert(err == nil && nr == nd, "restore-error", "Restore = (%d, %v), dumped %d", nr, err, nd)
			}

			keys := make([]string, 0, len(pop))
			for k := range pop {
				keys = append(keys, k)
			}

			sort.Strings(keys)

			// Access history (fresh reads only; what an expired read does to the rank is not stated).
			if strategy != cache.EvictMostExpired && len(keys) > 0 {
				reads := c.Int("reads", 0, 3*len(keys))
				for i := 0; i < reads; i++ {
					k := keys[c.Pick("rk", len(keys))]
					if strategy == cache.EvictLeastRecentlyUsed {
						time.Sleep(time.Duration(c.Int("gap", 0, 3)) * time.Millisecond) // gap 0 => ties
					}

					if pop[k].expiry <= time.Now().UnixNano()+int64(time.Second) {
						continue // fresh reads only
					}

					if be.HasLoadStore() && c.Weighted("serve-via", 3, 1) == 1 {
						_, ok := be.Load([]byte(k)) // Load serves an entry just like Read
						c.Assert(ok, "read-fresh", "population Load of %s missed", k)
						c.Class("served-via-Load")
					} else {
						r := be.Read(bg, []byte(k))
						c.Assert(r.Err == nil, "read-fresh", "population read of %s: %v", k, r.Err)
					}

					if strategy == cache.EvictLeastRecentlyUsed {
						pop[k].metric = time.Now().UnixNano()
					} else {
						pop[k].metric++
					}
				}
			}

			// Nothing disappears between ticks.
			tick := t0.Add(time.Duration(cycle+1) * interval)

			// the population may still change shortly before the cycle (after the last items-count report)
			if !realJanitor && c.Weighted("late-change", 2, 1) == 1 {
				time.Sleep(time.Until(tick) - 5*time.Minute)

				late := c.Int("late-writes", -3, 6)
				for ; late < 0 && len(keys) > 0; late++ {
					k := keys[len(keys)-1]
					keys = keys[:len(keys)-1]
					_ = be.Delete(bg, []byte(k))
					delete(pop, k)
					lateDeletes++
				}

				for ; late > 0; late-- {
					nkey++
					k := fmt.Sprintf("k%03d", nkey)
					e := &evEntry{key: k, expiry: time.Now().Add(1000 * time.Hour).UnixNano()}
					ttl := time.Duration(0)

					if strategy == cache.EvictMostExpired {
						ttl = 50 * time.Minute
						e.metric = time.Now().Add(ttl).UnixNano()
						e.expiry = e.metric
					}

					_ = be.Write(ttlCtx(ttl), []byte(k), "v"+k)
					pop[k] = e
				}

				c.Class("population-changed-shortly-before-cycle")
			}

			// restoring entries that are all there already (the cache's own dump) changes nothing
			// (a restored entry has its key, value and expiry; whether it keeps its usage counter is not stated)
			if strategy == cache.EvictMostExpired && c.Weighted("restore-own-dump", 3, 1) == 1 {
				var buf bytes.Buffer

				nd, derr := be.Dump(&buf)
				nr, rerr := be.Restore(&buf)
				c.Assert(derr == nil && rerr == nil && nd == nr, "restore-error", "Dump/Restore of the cache into itself = (%d, %v) / (%d, %v)", nd, derr, nr, rerr)
				c.Class("own-dump-restored-before-cycle")
			}

			evBefore := tr.get("ev", cache.MetricEvict)
			callsBefore := neededCalls

			if realJanitor {
				// everything above took well under a second of fake time; some cycle of the janitor
				// lies in every window of one interval
				time.Sleep(time.Until(tick) + 1)
				synctest.Wait()
			} else {
				// nothing disappears outside cleanup cycles
				time.Sleep(time.Until(tick) - 1)
				synctest.Wait()
				c.Assert(be.Len() == len(pop), "evicted-outside-cycle", "Len()=%d before the cleanup cycle, population %d", be.Len(), len(pop))

				time.Sleep(1)

				// the cycle may run while a cleanup cycle of ANOTHER cache instance is under way
				// (here: from inside that instance's EvictionNeeded callback); instances are independent
				if c.Weighted("cycle-nested-in-another-instance's-cycle", 3, 1) == 1 {
					other := newCaseBackend(c, kind, cache.Config{
						Name: "other", TimeToLive: time.Hour, DeleteExpiredJobInterval: 2 * farFuture, ItemsCountReportInterval: farFuture,
						EvictionNeeded: func() bool {
							be.Cleanup()

							return false
						},
					})
					other.Cleanup()
					c.Class("cycle-overlaps-another-instance's-cycle")
				} else {
					be.Cleanup()
				}

				longExpired := 0

				for k, e := range pop {
					if e.expiry < tick.UnixNano()-int64(dea) {
						delete(pop, k)
						longExpired++
					}
				}

				if longExpired > 0 {
					c.Tracef("cycle %d: %d entries expired longer than %v ago are deleted first", cycle, longExpired, dea)
					c.Class("cycle-deletes-long-expired-first")
				}
			}

			// Survivors.
			kept := map[string]bool{}
			_, _ = be.Walk(func(k []byte, _ interface{}, _ time.Time) error {
				kept[string(k)] = true

				return nil
			})

			for k := range kept {
				c.Assert(pop[k] != nil, "phantom", "entry %s appeared from nowhere", k)
			}

			nBefore := len(pop)
			removed := nBefore - len(kept)
			countBreach := limit > 0 && nBefore > int(limit)
			otherBreach := heapLimit == 1 || (useNeeded && needScript[cycle]) // unreached memory limits never count
			breach := countBreach || otherBreach
			evicted := int(tr.get("ev", cache.MetricEvict) - evBefore)
			if !withStats {
				evicted = removed // nothing to compare with
			}

			c.Tracef("cycle %d: n=%d kept=%d removed=%d countBreach=%v otherBreach=%v cache_evict+=%d EvictionNeeded calls+=%d",
				cycle, nBefore, len(kept), removed, countBreach, otherBreach, evicted, neededCalls-callsBefore)

			if useNeeded && !countBreach && heapLimit != 1 {
				c.Assert(neededCalls-callsBefore == 1, "needed-calls", "EvictionNeeded consulted %d times in one cycle, want 1", neededCalls-callsBefore)
			}

			if !breach {
				c.Class("no-breach")
				c.Assert(removed == 0, "evict-without-breach", "no limit breached and EvictionNeeded false, yet %d of %d entries were removed", removed, nBefore)
				c.Assert(evicted == 0, "metric-without-breach", "cache_evict grew by %d without eviction", evicted)

				continue
			}

			c.Class("breach")

			if countBreach {
				c.Class("count-breach")

				target := float64(limit) * (1 - effFrac)
				c.Assert(math.Abs(float64(len(kept))-target) <= 1.000001, "count-amount",
					"count breach: %d entries remain of %d, want CountSoftLimit*(1-EvictFraction) = %.2f within one entry", len(kept), nBefore, target)
			} else {
				want := float64(nBefore) * effFrac
				c.Assert(math.Abs(float64(removed)-want) <= 1.000001, "fraction-amount",
					"%d of %d entries removed, want EvictFraction %.2f of them = %.2f within one entry", removed, nBefore, effFrac, want)
			}

			c.Assert(evicted == removed, "evict-metric", "cache_evict grew by %d, %d entries were removed", evicted, removed)
			if withStats {
				c.Assert(tr.get("ev", cache.MetricDelete) == float64(lateDeletes), "evict-counted-as-delete", "cache_delete = %v although only %d entries were removed by Delete (evictions have their own metric)", tr.get("ev", cache.MetricDelete), lateDeletes)
			}

			// Rank: every removed entry ranks no higher than every kept entry.
			maxRemoved, minKept := int64(math.MinInt64), int64(math.MaxInt64)
			distinctRemoved, distinctKept := map[int64]bool{}, map[int64]bool{}
			var worstRemoved, bestKept string

			for k, e := range pop {
				if kept[k] {
					distinctKept[e.metric] = true
					if e.metric < minKept {
						minKept, bestKept = e.metric, k
					}
				} else {
					distinctRemoved[e.metric] = true
					if e.metric > maxRemoved {
						maxRemoved, worstRemoved = e.metric, k
					}
				}
			}

			if removed > 0 && len(kept) > 0 {
				c.Assert(maxRemoved <= minKept, "rank", "strategy %s: removed %s (metric %d) ranks higher than kept %s (metric %d)",
					stratName, worstRemoved, maxRemoved, bestKept, minKept)

				if len(distinctRemoved) >= 2 && len(distinctKept) >= 2 {
					c.NonTrivial()
				}
			}

			for k := range pop {
				if !kept[k] {
					delete(pop, k)
				}
			}
		}
	})
}
