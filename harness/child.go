package harness

// childMain is the entry point of re-executed test binaries (fresh-process evaluations).
func childMain() {
	childHashMain()
}
