module verif/harness

go 1.26.8

godebug randseednop=0

require (
	github.com/anishathalye/porcupine v1.3.0
	github.com/bool64/cache v0.0.0
	github.com/cespare/xxhash/v2 v2.2.0
	pgregory.net/rapid v1.3.0
)

replace github.com/bool64/cache => /repo
