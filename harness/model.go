package harness

import (
	"math"
	"time"
)

// refMap is the reference model of a backend: a map with per-entry expiry.
// It imports nothing from the library.
type refMap struct {
	m         map[string]*refEntry
	ttl       time.Duration // configured TTL after defaulting (ignored when unlimited)
	unlimited bool
	jitter    float64 // effective jitter fraction, 0 = disabled
}

type refEntry struct {
	val interface{}
	e   int64 // expiry, unix ns; 0 = never expires
	// altE != 0: the expiry is either e or altE (an already expired entry hit by ExpireAll may keep its
	// older expiry or get the ExpireAll instant); settled by the first observation
	// band for not yet revealed jittered expiry
	lo, hi  int64
	settled bool
	altE    int64
}

type readKind int

const (
	rkHit readKind = iota
	rkNotFound
	rkExpired
)

func (k readKind) String() string { return [...]string{"hit", "notfound", "expired"}[k] }

// newRefMap builds the model from raw configuration values (library defaults applied here from
// the documentation: TimeToLive default 5m, ExpirationJitter default 0.1, negative disables).
func newRefMap(cfgTTL time.Duration, cfgJitter float64) *refMap {
	r := &refMap{m: map[string]*refEntry{}}

	switch {
	case cfgTTL == -1:
		r.unlimited = true
	case cfgTTL == 0:
		r.ttl = 5 * time.Minute
	default:
		r.ttl = cfgTTL
	}

	switch {
	case cfgJitter == 0:
		r.jitter = 0.1
	case cfgJitter < 0:
		r.jitter = 0
	default:
		r.jitter = cfgJitter
	}

	return r
}

// effectiveTTL resolves ctx TTL vs configured TTL; ok=false means "never expires".
func (r *refMap) effectiveTTL(ctxTTL time.Duration) (time.Duration, bool) {
	if ctxTTL != 0 {
		return ctxTTL, true
	}

	if r.unlimited {
		return 0, false
	}

	return r.ttl, true
}

// band returns the permitted expiry interval (unix ns) for a write at now.
func (r *refMap) band(now time.Time, ctxTTL time.Duration) (lo, hi int64, never bool) {
	t, ok := r.effectiveTTL(ctxTTL)
	if !ok {
		return 0, 0, true
	}

	base := now.UnixNano()

	if r.jitter == 0 {
		return base + int64(t), base + int64(t), false
	}

	a := float64(t) * (1 - r.jitter/2)
	b := float64(t) * (1 + r.jitter/2)

	if a > b {
		a, b = b, a
	}

	slop := math.Abs(float64(t))*math.Pow(2, -50) + 2
	lo = base + int64(math.Floor(a-slop))
	hi = base + int64(math.Ceil(b+slop))

	return lo, hi, false
}

func (r *refMap) write(now time.Time, key []byte, val interface{}, ctxTTL time.Duration) *refEntry {
	lo, hi, never := r.band(now, ctxTTL)
	e := &refEntry{val: val, lo: lo, hi: hi}

	if never {
		e.settled = true
	} else if lo == hi {
		e.e = lo
		e.settled = true
	}

	r.m[string(key)] = e

	return e
}

func (r *refMap) read(now time.Time, key []byte) (readKind, *refEntry) {
	e, ok := r.m[string(key)]
	if !ok {
		return rkNotFound, nil
	}

	if e.e != 0 && e.e < now.UnixNano() {
		return rkExpired, e
	}

	return rkHit, e
}

// atBoundary reports whether now is exactly the entry's expiry instant: "reads before that instant
// return the value, reads after it return ErrExpired" leaves the instant itself open.
func (e *refEntry) atBoundary(now time.Time) bool {
	return e != nil && e.e != 0 && e.e == now.UnixNano()
}

func (r *refMap) del(key []byte) bool {
	_, ok := r.m[string(key)]
	delete(r.m, string(key))

	return ok
}

func (r *refMap) expireAll(now time.Time) int {
	for _, e := range r.m {
		if e.e != 0 && e.e < now.UnixNano() {
			// already expired: "expired but still retrievable as stale" holds with either instant
			if e.altE == 0 {
				e.altE = e.e
			}
		} else {
			e.altE = 0
		}

		e.e = now.UnixNano()
		e.settled = true
	}

	return len(r.m)
}

// observeExpiry settles an entry whose expiry may be one of two instants.
func (e *refEntry) observeExpiry(ns int64) {
	if e.altE != 0 && ns == e.altE {
		e.e = e.altE
	}

	if ns == e.e {
		e.altE = 0
	}
}

func (r *refMap) deleteAll() int {
	n := len(r.m)
	r.m = map[string]*refEntry{}

	return n
}
