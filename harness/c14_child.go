package harness

import (
	"fmt"
	"os"
	"strconv"
	"strings"

	"github.com/bool64/cache"

	dupa "verif/harness/dupa/dup"
	dupb "verif/harness/dupb/dup"
)

// Pool of types for the gob types hash laws.
type (
	hashT1 struct{ A int }
	hashT2 struct {
		A int
		B string
	}
	hashT3 struct{ Inner hashT1 }
	hashT4 struct{ P *hashT2 }
	hashT5 struct{ S []hashT1 }
	hashT6 struct{ M map[string]hashT2 }
	hashT7 struct {
		hashT1
		C float64
	}
	hashT8  struct{ B []byte }
	hashID  int64
	hashCur string
)

// The last two types have the same package name and type name ("dup.T") but different import paths.
// Slices of pool types are types of their own (gob itself refuses T together with *T).
var hashPool = []interface{}{hashT1{}, hashT2{}, hashT3{}, hashT4{}, hashT5{}, hashT6{}, hashT7{}, hashT8{}, dupa.T{}, dupb.T{}, hashID(0), hashCur(""),
	[]hashT1{}, []*hashT2{}}

// childHashMain registers the pool types named by VERIF_HASH_ORDER (comma separated indexes,
// repetitions allowed) in that order and prints the resulting types hash.
func childHashMain() {
	order := os.Getenv("VERIF_HASH_ORDER")

	// "a,b|c" = GobRegister(a, b); GobRegister(c)
	for _, group := range strings.Split(order, "|") {
		var vals []interface{}

		for _, f := range strings.Split(group, ",") {
			if f == "" {
				continue
			}

			i, err := strconv.Atoi(f)
			if err != nil || i < 0 || i >= len(hashPool) {
				fmt.Println("bad order")
				os.Exit(2)
			}

			vals = append(vals, hashPool[i])
		}

		if len(vals) > 0 {
			cache.GobRegister(vals...)
		}
	}

	fmt.Printf("HASH=%d\n", cache.GobTypesHash())
}
