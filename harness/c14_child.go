package harness

func childHashMain() {}
