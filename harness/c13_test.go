package harness

import (
	"bytes"
	"context"
	"errors"
	"fmt"
	"reflect"
	"sort"
	"strings"
	"testing"
	"time"

	"github.com/bool64/cache"
)

const c13Rule = "generated entry sets (0-300 entries; keys of length 0-40, binary, shared prefixes; values nil/zero/populated from a gob-registered pool; expiry none or set, mixed) " +
	"dumped and restored along a chain of 1-4 hops over every pairing ShardedMap<->SyncMap (4 directions) and ShardedMapOf[V]->ShardedMapOf[V] for V in {int,string,struct}; " +
	"oracle: both calls report the entry count and nil, Walk multiset (key, DeepEqual value, expiry) of every hop equals the source's, Read agrees; " +
	"non-trivial = >=2 entries with different key lengths and at least one zero/nil value or entry without expiry"

// dumpVal is a struct value with zero and non-zero fields.
type dumpVal struct {
	A int
	S string
	B []byte
	M map[string]int
}

func registerGobTypes() {
	cache.GobRegister(int(0), "", dumpVal{}, []int{}, map[string]string{})
}

// dumpCache is the view of a cache needed by the round-trip check.
type dumpCache interface {
	kind() string
	put(key []byte, val interface{}, ttl time.Duration)
	rows() []walkRow
	dump(w *bytes.Buffer) (int, error)
	restore(r *bytes.Buffer) (int, error)
	read(key []byte) (interface{}, error)
	wdr() cache.WalkDumpRestorer
	deleteAll()
	close()
}

type plainDump struct{ be Backend }

func (p plainDump) kind() string { return p.be.Kind() }
func (p plainDump) put(key []byte, val interface{}, ttl time.Duration) {
	_ = p.be.Write(ttlCtx(ttl), key, val)
}

func (p plainDump) rows() []walkRow {
	var rows []walkRow

	_, _ = p.be.Walk(func(k []byte, v interface{}, exp time.Time) error {
		rows = append(rows, walkRow{key: string(k), val: v, e: exp.UnixNano()})

		return nil
	})

	return rows
}
func (p plainDump) dump(w *bytes.Buffer) (int, error)    { return p.be.Dump(w) }
func (p plainDump) restore(r *bytes.Buffer) (int, error) { return p.be.Restore(r) }
func (p plainDump) read(key []byte) (interface{}, error) {
	r := p.be.Read(bg, key)

	return r.Val, r.Err
}
func (p plainDump) close()                      { p.be.Close() }
func (p plainDump) deleteAll()                  { p.be.DeleteAll(bg) }
func (p plainDump) wdr() cache.WalkDumpRestorer { return p.be.Raw().(cache.WalkDumpRestorer) }

type ofDump[V any] struct {
	c    *cache.ShardedMapOf[V]
	name string
}

func (o ofDump[V]) kind() string { return o.name }
func (o ofDump[V]) put(key []byte, val interface{}, ttl time.Duration) {
	_ = o.c.Write(ttlCtx(ttl), key, val.(V))
}

func (o ofDump[V]) rows() []walkRow {
	var rows []walkRow

	_, _ = o.c.Walk(func(e cache.EntryOf[V]) error {
		rows = append(rows, walkRow{key: string(e.Key()), val: e.Value(), e: normExp(e.ExpireAt()).UnixNano()})

		return nil
	})

	return rows
}
func (o ofDump[V]) dump(w *bytes.Buffer) (int, error)    { return o.c.Dump(w) }
func (o ofDump[V]) restore(r *bytes.Buffer) (int, error) { return o.c.Restore(r) }
func (o ofDump[V]) read(key []byte) (interface{}, error) { return o.c.Read(bg, key) }
func (o ofDump[V]) close()                               { o.c.VerifClose() }
func (o ofDump[V]) deleteAll()                           { o.c.DeleteAll(bg) }
func (o ofDump[V]) wdr() cache.WalkDumpRestorer          { return o.c.WalkDumpRestorer() }

// The janitor never runs (interval); DeleteExpiredAfter keeps its 24h default so that entries
// expired longer ago than that exist in the caches (they are still entries and must be transferred).
var dumpCfg = cache.Config{
	TimeToLive: cache.UnlimitedTTL, ExpirationJitter: -1,
	DeleteExpiredJobInterval: 2 * farFuture,
}

func newDumpCache(c *Case, family string) dumpCache {
	return newDumpCacheCfg(c, family, dumpCfg)
}

// drawTargetCfg draws the configuration of a cache that receives a dump: the round trip must not
// depend on it (the receiving side's TimeToLive and jitter apply to new writes only).
func drawTargetCfg(c *Case) cache.Config {
	cfg := dumpCfg

	switch c.Weighted("target-ttl", 2, 1, 1) {
	case 1:
		cfg.TimeToLive = 0 // library default, 5 minutes
		c.Class("target-finite-ttl")
	case 2:
		cfg.TimeToLive = time.Hour
		c.Class("target-finite-ttl")
	}

	if c.Weighted("target-jitter", 2, 1) == 1 {
		cfg.ExpirationJitter = 0.5
	}

	// soft limits of the receiving cache concern its cleanup cycles (none runs here), not Restore
	switch c.Weighted("target-limits", 4, 1, 1, 1) {
	case 1:
		cfg.HeapInUseSoftLimit = 1
		c.Class("target-with-exceeded-soft-limit")
	case 2:
		cfg.SysMemSoftLimit = 1
		c.Class("target-with-exceeded-soft-limit")
	case 3:
		cfg.CountSoftLimit, cfg.EvictFraction = 1, 0.9
		c.Class("target-with-exceeded-soft-limit")
	}

	// an observed receiving cache (debug logger and/or stats tracker) takes the instrumented code paths
	switch c.Weighted("target-observed", 3, 1, 1, 1) {
	case 1:
		cfg.Logger = sinkLogger{}
		c.Class("target-with-debug-logger")
	case 2:
		cfg.Stats = newCountTracker()
		c.Class("target-with-stats")
	case 3:
		cfg.Logger, cfg.Stats = sinkLogger{}, newCountTracker()
		c.Class("target-with-debug-logger")
		c.Class("target-with-stats")
	}

	return cfg
}

// sinkLogger accepts every level and formats what it is given (like a real structured logger would).
type sinkLogger struct{}

func (sinkLogger) Debug(_ context.Context, msg string, kv ...interface{}) { _ = fmt.Sprint(msg, kv) }
func (sinkLogger) Warn(_ context.Context, msg string, kv ...interface{})  { _ = fmt.Sprint(msg, kv) }
func (sinkLogger) Important(_ context.Context, msg string, kv ...interface{}) {
	_ = fmt.Sprint(msg, kv)
}
func (sinkLogger) Error(_ context.Context, msg string, kv ...interface{}) { _ = fmt.Sprint(msg, kv) }

func newDumpCacheCfg(c *Case, family string, cfg cache.Config) dumpCache {
	var d dumpCache

	switch family {
	case kindSharded, kindSync:
		d = plainDump{be: newBackend(family, cfg)}
	case "Of[int]":
		d = ofDump[int]{c: cache.NewShardedMapOf[int](cfg.Use), name: family}
	case "Of[string]":
		d = ofDump[string]{c: cache.NewShardedMapOf[string](cfg.Use), name: family}
	case "Of[struct]":
		d = ofDump[dumpVal]{c: cache.NewShardedMapOf[dumpVal](cfg.Use), name: family}
	case "Of[ptr]":
		d = ofDump[*dumpVal]{c: cache.NewShardedMapOf[*dumpVal](cfg.Use), name: family}
	default:
		panic(family)
	}

	c.OnClose(1, d.close)

	return d
}

// drawValue draws a value for the family; zero reports whether it is a nil/zero value.
func drawValue(c *Case, family string, n int) (v interface{}, zero bool) {
	switch family {
	case "Of[int]":
		if c.Weighted("v", 3, 1) == 1 {
			return 0, true
		}

		return n + 1, false
	case "Of[string]":
		if c.Weighted("v", 3, 1) == 1 {
			return "", true
		}

		if hv, ok := drawHugeString(c, n); ok {
			return hv, false
		}

		return fmt.Sprintf("s%d", n), false
	case "Of[ptr]":
		switch c.Weighted("v", 3, 2, 1) {
		case 1:
			return (*dumpVal)(nil), true // a nil pointer is a value like any other
		case 2:
			return &dumpVal{}, true
		}

		return &dumpVal{A: n + 1, S: "x", B: []byte{1, 2}, M: map[string]int{"a": n}}, false
	case "Of[struct]":
		switch c.Weighted("v", 3, 1, 2) {
		case 1:
			return dumpVal{}, true
		case 2:
			return dumpVal{A: 0, S: fmt.Sprintf("p%d", n)}, true // partially zero
		}

		return dumpVal{A: n + 1, S: "x", B: []byte{1, 2}, M: map[string]int{"a": n}}, false
	}

	if hv, ok := drawHugeString(c, n); ok {
		return hv, false
	}

	switch c.Weighted("v", 3, 2, 1, 1, 1, 1, 1, 1) {
	case 0:
		return fmt.Sprintf("s%d", n), false
	case 1:
		return nil, true
	case 2:
		return 0, true
	case 3:
		return "", true
	case 4:
		return n + 1, false
	case 5:
		return dumpVal{A: n + 1, S: "x", B: []byte{1}, M: map[string]int{"a": 1}}, false
	case 6:
		return dumpVal{S: "only-s"}, true
	default:
		return []int{n, 0, n}, false
	}
}

// drawHugeString now and then yields a value whose gob record is tens of kilobytes to megabytes long
// (around the sizes at which encoders and buffered writers switch strategy).
func drawHugeString(c *Case, n int) (string, bool) {
	if c.Weighted("huge-value", 150, 1) == 0 {
		return "", false
	}

	size := []int{65537, 1<<20 - 64, 1<<20 + 64, 3 << 20}[c.Pick("huge-size", 4)]
	c.Class("value-of-megabyte-size")

	return fmt.Sprintf("huge%d:", n) + strings.Repeat("x", size), true
}

func drawKey(c *Case) []byte {
	prefixes := []string{"", "k", "key-", "\x00", "longer-key-prefix-"}
	p := prefixes[c.Pick("prefix", len(prefixes))]
	n := c.Int("suffixlen", 0, 40-len(p))
	k := []byte(p)

	for i := 0; i < n; i++ {
		if c.Weighted("bytekind", 4, 1) == 0 {
			k = append(k, byte('a'+c.Int("b", 0, 3)))
		} else {
			k = append(k, byte(c.Int("b", 0, 255)))
		}
	}

	return k
}

func rowsEqual(generic bool, a, b []walkRow) (bool, string) {
	norm := func(rows []walkRow) []walkRow {
		out := append([]walkRow{}, rows...)
		sort.Slice(out, func(i, j int) bool { return out[i].key < out[j].key })

		return out
	}

	a, b = norm(a), norm(b)
	if len(a) != len(b) {
		return false, fmt.Sprintf("%d entries vs %d entries", len(a), len(b))
	}

	for i := range a {
		if a[i].key != b[i].key {
			return false, fmt.Sprintf("key %q vs %q", a[i].key, b[i].key)
		}

		if !reflect.DeepEqual(a[i].val, b[i].val) {
			return false, fmt.Sprintf("key %q: value %#v vs %#v", a[i].key, a[i].val, b[i].val)
		}

		if a[i].e != b[i].e {
			return false, fmt.Sprintf("key %q: expiry %d vs %d", a[i].key, a[i].e, b[i].e)
		}
	}

	return true, ""
}

// TestC13DumpRestore: Dump followed by Restore reproduces the cache exactly.
func TestC13DumpRestore(t *testing.T) {
	runCheck(t, "C13", "C13DumpRestore", c13Rule, propDumpRestore)
}

func propDumpRestore(c *Case) {
	var chain []string

	hops := c.Int("hops", 1, 4)

	if c.Weighted("family", 3, 2) == 0 {
		for i := 0; i <= hops; i++ {
			chain = append(chain, []string{kindSync, kindSharded}[c.Pick("kind", 2)])
		}
	} else {
		f := []string{"Of[int]", "Of[string]", "Of[struct]", "Of[ptr]"}[c.Pick("V", 4)]
		for i := 0; i <= hops; i++ {
			chain = append(chain, f)
		}
	}

	c.Tracef("chain %v", chain)

	c.Bubble(func() {
		fillAndTransfer(c, chain, nil)
	})
}

// failWriter accepts left bytes, then fails.
type failWriter struct{ left int }

func (f *failWriter) Write(p []byte) (int, error) {
	if len(p) > f.left {
		n := f.left
		f.left = 0

		return n, errors.New("injected write error")
	}

	f.left -= len(p)

	return len(p), nil
}

// fillAndTransfer fills a cache of family chain[0] with generated entries and relays it along
// the chain; transfer performs one hop (nil = Dump into a buffer + Restore from it).
func fillAndTransfer(c *Case, chain []string, transfer func(src, dst dumpCache, want int)) {
	src := newDumpCache(c, chain[0])

	var n int

	sameShard := false

	switch c.Weighted("size", 2, 12, 4, 2, 1) {
	case 4:
		// hundreds of entries in ONE of the source's shards (and some thousand overall now and then)
		n = c.Int("n", 65, 400)
		sameShard = true
		c.Class("many-entries-in-one-shard")
	case 0:
		n = 0
	case 1:
		n = c.Int("n", 1, 12)
	case 2:
		n = c.Int("n", 13, 60)
	case 3:
		n = c.Int("n", 61, 300)
	}

	keys := map[string]bool{}
	lens := map[int]bool{}
	zeros := 0

	for len(keys) < n {
		k := drawKey(c)
		if sameShard {
			k = sameShardPool[len(keys)]
		}

		if keys[string(k)] {
			k = append(k, []byte(fmt.Sprintf("#%d", len(keys)))...)
		}

		keys[string(k)] = true
		lens[len(k)] = true

		v, zero := drawValue(c, chain[0], len(keys))

		var ttl time.Duration

		switch c.Weighted("ttl", 5, 5, 1) {
		case 1:
			ttl = time.Duration(c.Int("ttlmin", -3, 60)) * time.Minute
		case 2:
			ttl = -48 * time.Hour // expired longer ago than DeleteExpiredAfter, not yet cleaned up
			c.Class("long-expired-entry")
		}

		if zero || ttl == 0 {
			zeros++
		}

		src.put(k, v, ttl)

		if len(keys) <= 8 {
			c.Tracef("entry %q = %.200s ttl=%v", k, fmt.Sprintf("%#v", v), ttl)
		}
	}

	if n >= 2 && len(lens) >= 2 && zeros > 0 {
		c.NonTrivial()
	}

	c.Class("chain-start=" + chain[0])
	c.Class(fmt.Sprintf("hops=%d", len(chain)-1))

	want := src.rows()
	c.Assert(len(want) == n, "source-walk", "source holds %d entries by Walk, %d were written", len(want), n)

	cur := src

	for h := 1; h < len(chain); h++ {
		dst := newDumpCacheCfg(c, chain[h], drawTargetCfg(c))

		// "an empty cache" may also be one that was used and emptied before
		if c.Weighted("target-history", 3, 1) == 1 {
			for i := 0; i < 5; i++ {
				v, _ := drawValue(c, chain[h], i)
				dst.put([]byte(fmt.Sprintf("old-%d", i)), v, 0)
			}

			for i := 0; i < len(want) && i < 3; i++ {
				v, _ := drawValue(c, chain[h], i)
				dst.put([]byte(want[i].key), v, time.Minute)
			}

			dst.deleteAll()
			c.Class("target-emptied-by-DeleteAll")
		}

		if transfer != nil {
			transfer(cur, dst, n)
		} else {
			var buf bytes.Buffer

			// a dump that failed half way (broken connection) must not disturb the next one
			if n > 0 && c.Weighted("failed-dump-first", 3, 1) == 1 {
				fw := &failWriter{left: c.Int("fail-after", 0, 200)}
				_, ferr := cur.wdr().Dump(fw)
				c.Tracef("hop %d: Dump into a writer failing after %d bytes = %v", h, fw.left, ferr)
				c.Class("failed-dump-before")
			}

			// the transfer may go through the non-generic WalkDumpRestorer adapters (what HTTPTransfer uses)
			viaAdapter := c.Weighted("via-WalkDumpRestorer-adapter", 2, 1) == 1

			var (
				dn   int
				derr error
			)

			if viaAdapter {
				dn, derr = cur.wdr().Dump(&buf)
				c.Class("via-WalkDumpRestorer-adapter")
			} else {
				dn, derr = cur.dump(&buf)
			}

			c.Tracef("hop %d: %s.Dump = %d, %v (%d bytes)", h, cur.kind(), dn, derr, buf.Len())
			c.Assert(derr == nil && dn == n, "dump-result", "Dump of %d entries returned (%d, %v)", n, dn, derr)

			var (
				rn   int
				rerr error
			)

			if viaAdapter {
				rn, rerr = dst.wdr().Restore(&buf)
			} else {
				rn, rerr = dst.restore(&buf)
			}

			c.Tracef("hop %d: %s.Restore = %d, %v", h, dst.kind(), rn, rerr)
			c.Assert(rerr == nil && rn == n, "restore-result", "Restore of %d entries returned (%d, %v)", n, rn, rerr)
		}

		got := dst.rows()
		ok, diff := rowsEqual(false, want, got)
		c.Assert(ok, "roundtrip", "hop %d %s -> %s: restored cache differs from the source: %s", h, cur.kind(), dst.kind(), diff)

		now := time.Now().UnixNano()

		for _, r := range want {
			v, err := dst.read([]byte(r.key))
			if r.e != 0 && r.e < now {
				c.Assert(err != nil, "read-restored", "restored expired key %q read as fresh", r.key)
			} else {
				c.Assert(err == nil && reflect.DeepEqual(v, r.val), "read-restored", "restored key %q reads (%#v, %v), want %#v", r.key, v, err, r.val)
			}
		}

		cur = dst
	}
}
