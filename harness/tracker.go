package harness

import (
	"context"
	"sync"
)

// countTracker is a StatsTracker that sums Add increments per (cache name, metric).
// It never blocks (it may be called under library locks, rule R1).
type countTracker struct {
	mu   sync.Mutex
	sums map[string]float64
	sets map[string]float64
	hook func(ctx context.Context, name string, inc float64, cacheName string)
}

func newCountTracker() *countTracker {
	return &countTracker{sums: map[string]float64{}, sets: map[string]float64{}}
}

func labelName(lv []string) string {
	for i := 0; i+1 < len(lv); i += 2 {
		if lv[i] == "name" {
			return lv[i+1]
		}
	}

	return ""
}

func (t *countTracker) Add(ctx context.Context, name string, inc float64, lv ...string) {
	cn := labelName(lv)

	t.mu.Lock()
	t.sums[cn+"/"+name] += inc
	t.mu.Unlock()

	if t.hook != nil {
		t.hook(ctx, name, inc, cn)
	}
}

func (t *countTracker) Set(_ context.Context, name string, v float64, lv ...string) {
	t.mu.Lock()
	t.sets[labelName(lv)+"/"+name] = v
	t.mu.Unlock()
}

func (t *countTracker) get(cacheName, metric string) float64 {
	t.mu.Lock()
	defer t.mu.Unlock()

	return t.sums[cacheName+"/"+metric]
}
