package harness

import (
	"bytes"
	"errors"
	"fmt"
	"io"
	"net/http"
	"net/http/httptest"
	"os"
	"os/exec"
	"reflect"
	"strconv"
	"strings"
	"sync"
	"testing"

	"github.com/bool64/cache"
)

const c14aRule = "exporter and importer HTTPTransfer with generated name sets (matched, exporter-only, importer-only), caches filled as in C13 (importer-only caches pre-filled), in-process RoundTripper serving Export(); per name one of: clean, typesHash rewritten, non-200 status with a valid gob body, RoundTrip error, body read error after k bytes; " +
	"then for one small dump the body is truncated at EVERY byte offset (fresh importer each); oracle: clean matched names == exporter's entries (Walk multiset), everything else untouched / nothing imported, truncated => imported subset of exported entry-wise equal, Import never panics; " +
	"non-trivial = >=2 names on a side and at least one fault, or a truncation sweep ran"

const c14bRule = "gob types hash laws over a pool of 14 types (8 structs, two structs with the same package and type name under different import paths, two defined types of basic kind, slices of pool types): rapid draws a subset, two registration orders with multiplicities and an extra type; each order is evaluated in a FRESH process (the test binary re-executes itself) printing GobTypesHash(); " +
	"oracle: equal for equal sets (any order, any repetition, any process), different after adding a type; non-trivial = subset of >=2 types with a repetition or a genuinely different order"

type rtFault struct {
	mode int // 0 clean, 1 hash rewritten, 2 non-200 with gob body, 3 RoundTrip error, 4 read error after k, 5 truncate at k
	k    int
}

type fakeTransport struct {
	mu      sync.Mutex // Import may issue its requests from several goroutines
	handler http.Handler
	faults  map[string]rtFault
	sizes   map[string]int
	seen    map[string]int
}

type errReader struct {
	r    io.Reader
	left int
}

func (e *errReader) Read(p []byte) (int, error) {
	if e.left <= 0 {
		return 0, errors.New("injected body read error")
	}

	if len(p) > e.left {
		p = p[:e.left]
	}

	n, err := e.r.Read(p)
	e.left -= n

	return n, err
}

func (e *errReader) Close() error { return nil }

func (f *fakeTransport) RoundTrip(req *http.Request) (*http.Response, error) {
	name := req.URL.Query().Get("name")

	f.mu.Lock()
	f.seen[name]++
	ft := f.faults[name]
	f.mu.Unlock()

	if ft.mode == 3 {
		return nil, errors.New("injected RoundTrip error")
	}

	if ft.mode == 6 {
		// the exporting process registered no types at all: its hash is zero
		cache.GobTypesHashReset()
	}

	if ft.mode == 1 {
		q := req.URL.Query()
		h, _ := strconv.ParseUint(q.Get("typesHash"), 10, 64)
		q.Set("typesHash", strconv.FormatUint(h+1, 10))
		req.URL.RawQuery = q.Encode()
	}

	rec := httptest.NewRecorder()
	f.handler.ServeHTTP(rec, req)
	resp := rec.Result()
	body, _ := io.ReadAll(resp.Body)

	f.mu.Lock()
	f.sizes[name] = len(body)
	f.mu.Unlock()

	switch ft.mode {
	case 2:
		resp.StatusCode = http.StatusInternalServerError
		resp.Body = io.NopCloser(bytes.NewReader(body))
	case 4:
		resp.Body = &errReader{r: bytes.NewReader(body), left: ft.k}
	case 5:
		k := ft.k
		if k > len(body) {
			k = len(body)
		}

		resp.Body = io.NopCloser(bytes.NewReader(body[:k]))
	default:
		resp.Body = io.NopCloser(bytes.NewReader(body))
	}

	return resp, nil
}

// TestC14Transfer: HTTP transfer imports exactly what was exported and refuses mismatches.
func TestC14Transfer(t *testing.T) {
	runCheck(t, "C14", "C14Transfer", c14aRule, propTransfer)
}

func fillDump(c *Case, d dumpCache, family string, max int) {
	n := c.Int("n", 0, max)
	keys := map[string]bool{}

	for len(keys) < n {
		k := drawKey(c)
		if keys[string(k)] {
			k = append(k, []byte(fmt.Sprintf("#%d", len(keys)))...)
		}

		keys[string(k)] = true
		v, _ := drawValue(c, family, len(keys))

		ttl := []int{0, 5, 60, -3}[c.Pick("ttl", 4)]
		d.put(k, v, minutes(ttl))
	}
}

func propTransfer(c *Case) {
	families := []string{kindSharded, kindSync, "Of[string]", "Of[struct]"}
	names := []string{"alpha", "alpha&v=2", "be ta+1", "100%#x", ""}

	c.Bubble(func() {
		exp := &cache.HTTPTransfer{}
		imp := &cache.HTTPTransfer{}
		tr := &fakeTransport{faults: map[string]rtFault{}, sizes: map[string]int{}, seen: map[string]int{}}
		imp.Transport = tr

		type side struct {
			src, dst dumpCache
			family   string
			pre      []walkRow
		}

		sides := map[string]*side{}
		nExp, nImp, nFault := 0, 0, 0

		for _, name := range names {
			where := c.Weighted("where-"+name, 3, 1, 1, 1) // both, exporter only, importer only, nowhere
			if where == 3 {
				continue
			}

			fam := families[c.Pick("family", len(families))]
			s := &side{family: fam}
			sides[name] = s

			if where == 0 || where == 1 {
				s.src = newDumpCache(c, fam)
				fillDump(c, s.src, fam, 12)
				exp.AddCache(name, s.src.wdr())
				nExp++
			}

			if where == 0 || where == 2 {
				// importer side: same family; ShardedMap and SyncMap are interchangeable
				dfam := fam
				if (fam == kindSharded || fam == kindSync) && c.Bool("cross") {
					dfam = map[string]string{kindSharded: kindSync, kindSync: kindSharded}[fam]
				}

				s.dst = newDumpCache(c, dfam)

				if where == 2 {
					fillDump(c, s.dst, dfam, 5)
					s.pre = s.dst.rows()
				}

				imp.AddCache(name, s.dst.wdr())
				nImp++

				mode := c.Weighted("fault-"+name, 5, 1, 1, 1, 1)
				if mode != 0 {
					nFault++
				}

				tr.faults[name] = rtFault{mode: mode, k: c.Int("k", 0, 200)}
			}

			c.Tracef("name %s: where=%d family=%s fault=%+v", name, where, fam, tr.faults[name])
		}

		tr.handler = exp.Export()

		if (nExp >= 2 || nImp >= 2) && nFault > 0 {
			c.NonTrivial()
		}

		var panicked interface{}

		err := func() (err error) {
			defer func() { panicked = recover() }()

			return imp.Import(bg, "http://exporter.invalid/debug/transfer-cache")
		}()

		c.Assert(panicked == nil, "import-panic", "Import panicked: %v", panicked)
		c.Tracef("Import returned %v", err) // what Import returns when some cache is refused is not specified

		hashMismatchInjected := false

		for _, ft := range tr.faults {
			if ft.mode == 1 {
				hashMismatchInjected = true
			}
		}

		for _, name := range names {
			s := sides[name]
			if s == nil || s.dst == nil {
				continue
			}

			got := s.dst.rows()
			ft := tr.faults[name]

			switch {
			case s.src == nil:
				// unknown to the exporter: untouched
				ok, diff := rowsEqual(false, s.pre, got)
				c.Assert(ok, "unmatched-cache-changed", "importer cache %q is unknown to the exporter but changed: %s", name, diff)
			case name == "":
				// The exporter treats an empty name as a missing parameter: whether a cache registered
				// under "" can be transferred at all is not specified; it must not harm the others.
				assertSubset(c, "cache registered under the empty name", s.src.rows(), got)
			case ft.mode == 0:
				ok, diff := rowsEqual(false, s.src.rows(), got)

				// A types-hash mismatch is a property of the two processes, not of one cache name: an importer
				// that was refused for one name may skip the remaining names (they would be refused as well);
				// the per-name rewrite of the harness is an artificial world. Then nothing was imported here.
				if !ok && hashMismatchInjected && len(got) == 0 {
					c.Class("skipped-after-hash-mismatch")

					break
				}

				c.Assert(ok, "transfer-differs", "cache %q after Import differs from the exporter's: %s", name, diff)
				c.Class("clean-transfer")
			case ft.mode == 1 || ft.mode == 2 || ft.mode == 3:
				c.Assert(len(got) == 0, "imported-despite-refusal", "cache %q holds %d entries although the transfer was refused (fault mode %d)", name, len(got), ft.mode)
				c.Class(fmt.Sprintf("refused-mode-%d", ft.mode))
			case ft.mode == 4:
				assertSubset(c, name, s.src.rows(), got)
				c.Class("body-read-error")
			}
		}

		if c.Weighted("exporter-without-types", 2, 1) == 1 {
			for _, name := range names {
				if s := sides[name]; s != nil && s.src != nil && name != "" {
					exporterWithoutTypes(c, tr.handler, name, s.family, s.src)

					break
				}
			}
		}

		// truncation sweep over one small clean dump
		for _, name := range names {
			s := sides[name]
			if s == nil || s.src == nil || s.dst == nil {
				continue
			}

			size, ok := tr.sizes[name]
			if !ok || size == 0 || size > 700 || tr.faults[name].mode == 1 || name == "" {
				continue
			}

			want := s.src.rows()

			for k := 0; k <= size; k++ {
				imp2 := &cache.HTTPTransfer{}
				dst := newDumpCache(c, s.family)
				imp2.AddCache(name, dst.wdr())
				// the handler is asked again for every offset: the length of a body may differ from call to
				// call (entries come in map order; a compressed body is not order-independent), so the last
				// step simply does not truncate
				cut := k
				if k == size {
					cut = 1 << 30
				}

				imp2.Transport = &fakeTransport{handler: tr.handler, faults: map[string]rtFault{name: {mode: 5, k: cut}}, sizes: map[string]int{}, seen: map[string]int{}}

				err := func() (err error) {
					defer func() { panicked = recover() }()

					return imp2.Import(bg, "http://exporter.invalid/x")
				}()

				c.Assert(panicked == nil, "import-panic", "Import of %q truncated at byte %d/%d panicked: %v", name, k, size, panicked)
				_ = err

				got := dst.rows()
				assertSubset(c, fmt.Sprintf("%s truncated at %d/%d", name, k, size), want, got)

				if k == size {
					okEq, diff := rowsEqual(false, want, got)
					c.Assert(okEq, "transfer-differs", "full body: %s", diff)
				}

				dst.close()
			}

			c.Class("truncation-sweep")
			c.NonTrivial()

			st := statsFor("C14", "C14Transfer", c14aRule)
			st.mu.Lock()
			st.Extra["truncation_offsets_enumerated"] += size + 1
			st.mu.Unlock()

			break
		}
	})
}

// c14FreshTypes counts the run-time array types registered to make the process' types hash non-zero.
var c14FreshTypes = 1000

// exporterWithoutTypes: an exporter whose types hash is zero (nothing registered) facing an importer
// with registered types is a mismatch like any other.
func exporterWithoutTypes(c *Case, handler http.Handler, name, family string, src dumpCache) {
	for cache.GobTypesHash() == 0 {
		c14FreshTypes++
		cache.GobRegister(reflect.Zero(reflect.ArrayOf(c14FreshTypes, reflect.TypeOf(int8(0)))).Interface())
	}

	imp := &cache.HTTPTransfer{}
	dst := newDumpCache(c, family)
	imp.AddCache(name, dst.wdr())
	imp.Transport = &fakeTransport{handler: handler, faults: map[string]rtFault{name: {mode: 6}}, sizes: map[string]int{}, seen: map[string]int{}}

	var panicked interface{}

	err := func() (err error) {
		defer func() { panicked = recover() }()

		return imp.Import(bg, "http://exporter.invalid/y")
	}()

	c.Assert(panicked == nil, "import-panic", "Import from an exporter without registered types panicked: %v", panicked)
	c.Tracef("Import from an exporter with types hash 0 (importer hash non-zero) returned %v", err)

	got := dst.rows()
	c.Assert(len(got) == 0 || len(src.rows()) == 0, "imported-despite-refusal",
		"cache %q holds %d entries although the exporter's types hash (0, nothing registered) differs from the importer's", name, len(got))
	c.Class("exporter-without-registered-types")
	dst.close()
}

func assertSubset(c *Case, what string, src, got []walkRow) {
	byKey := map[string]walkRow{}
	for _, r := range src {
		byKey[r.key] = r
	}

	for _, r := range got {
		s, ok := byKey[r.key]
		c.Assert(ok, "imported-phantom", "%s: imported key %q that the exporter does not hold", what, r.key)

		okEq, diff := rowsEqual(false, []walkRow{s}, []walkRow{r})
		c.Assert(okEq, "imported-corrupt", "%s: imported entry differs: %s", what, diff)
	}
}

// TestC14HashLaws: the gob types hash is a function of the set of registered types.
func TestC14HashLaws(t *testing.T) {
	runCheck(t, "C14", "C14HashLaws", c14bRule, propHashLaws)
}

// childHash evaluates GobTypesHash in a fresh process; cuts[i] starts a new GobRegister call
// before element i (one variadic call per group).
func childHash(c *Case, order []int, cuts ...bool) uint64 {
	var sb strings.Builder

	for i, v := range order {
		if i > 0 {
			if i < len(cuts) && !cuts[i] {
				sb.WriteByte(',')
			} else {
				sb.WriteByte('|')
			}
		}

		sb.WriteString(strconv.Itoa(v))
	}

	cmd := exec.Command(os.Args[0])
	cmd.Env = append(os.Environ(), "VERIF_CHILD=hash", "VERIF_HASH_ORDER="+sb.String())

	out, err := cmd.CombinedOutput()
	if err != nil {
		c.Failf("child-process", "fresh process for order %v failed: %v\n%s", order, err, out)
	}

	for _, line := range strings.Split(string(out), "\n") {
		if strings.HasPrefix(line, "HASH=") {
			h, _ := strconv.ParseUint(strings.TrimPrefix(line, "HASH="), 10, 64)

			st := statsFor("C14", "C14HashLaws", c14bRule)
			st.mu.Lock()
			st.Extra["fresh_processes"]++
			st.mu.Unlock()

			return h
		}
	}

	c.Failf("child-process", "no hash in child output: %s", out)

	return 0
}

func drawOrder(c *Case, set []int, label string) ([]int, bool) {
	// a permutation of set with 0-2 extra repetitions inserted
	rest := append([]int{}, set...)

	var order []int

	for len(rest) > 0 {
		i := c.Pick(label+".perm", len(rest))
		order = append(order, rest[i])
		rest = append(rest[:i], rest[i+1:]...)
	}

	reps := c.Int(label+".reps", 0, 2)
	for r := 0; r < reps; r++ {
		v := set[c.Pick(label+".rep", len(set))]
		pos := c.Int(label+".pos", 0, len(order))
		order = append(order[:pos], append([]int{v}, order[pos:]...)...)
	}

	return order, reps > 0
}

func propHashLaws(c *Case) {
	mask := c.Int("subset", 0, 1<<len(hashPool)-1)

	var set, others []int

	for i := 0; i < len(hashPool); i++ {
		if mask&(1<<i) != 0 {
			set = append(set, i)
		} else {
			others = append(others, i)
		}
	}

	if len(set) == 0 {
		set, others = []int{0}, others[1:]
	}

	o1, _ := drawOrder(c, set, "o1")
	o2, rep2 := drawOrder(c, set, "o2")

	// grouping of the second order into variadic GobRegister calls (the first uses one value per call)
	cuts := make([]bool, len(o2))
	grouped := false

	for i := range cuts {
		cuts[i] = i == 0 || c.Bool("o2.newcall")
		if !cuts[i] {
			grouped = true
		}
	}

	h1 := childHash(c, o1)
	h2 := childHash(c, o2, cuts...)
	c.Tracef("set %v: order %v (one value per call) -> %d; order %v with call boundaries %v -> %d", set, o1, h1, o2, cuts, h2)

	if grouped {
		c.Class("variadic-registration")
	}
	c.Assert(h1 == h2, "hash-order-dependent", "types hash of the same set differs: order %v -> %d, order %v -> %d", o1, h1, o2, h2)

	if len(set) >= 2 && (rep2 || fmt.Sprint(o1) != fmt.Sprint(o2)) {
		c.NonTrivial()
	}

	if c.Bool("again") {
		h1b := childHash(c, o1)
		c.Assert(h1 == h1b, "hash-process-dependent", "same registration order %v gave %d and %d in two processes", o1, h1, h1b)
	}

	if len(others) > 0 {
		extra := others[c.Pick("extra", len(others))]
		pos := c.Int("extra.pos", 0, len(o1))
		o3 := append(append(append([]int{}, o1[:pos]...), extra), o1[pos:]...)
		h3 := childHash(c, o3)
		c.Tracef("adding type %d: order %v -> %d", extra, o3, h3)
		c.Assert(h3 != h1, "hash-ignores-added-type", "adding type #%d to %v did not change the types hash (%d)", extra, set, h1)

		// two further types: processes whose type sets differ must not be taken for compatible
		if len(others) >= 2 {
			extra2 := others[(c.Pick("extra2", len(others)-1)+1+intIndex(others, extra))%len(others)]

			// prefer a type related to the first one (T and []T / []*T)
			if rel, ok := map[int]int{0: 12, 12: 0, 1: 13, 13: 1}[extra]; ok && c.Bool("extra2.related") {
				for _, o := range others {
					if o == rel {
						extra2 = rel
					}
				}
			}
			o4 := append(append([]int{}, o3...), extra2)
			h4 := childHash(c, o4)
			c.Tracef("adding types %d and %d: order %v -> %d", extra, extra2, o4, h4)
			c.Assert(h4 != h1 && h4 != h3, "hash-equal-for-different-sets", "the type sets %v and %v (+%d, +%d) have the same types hash %d", set, o4, extra, extra2, h4)
		}
	}
}

func intIndex(xs []int, v int) int {
	for i, x := range xs {
		if x == v {
			return i
		}
	}

	return 0
}

const c14cRule = "late registration, evaluated in a FRESH process per case: types of a drawn set are registered, an exporter (one Export() handler, created once) serves a first import, then a further type is registered and a value of it is cached, and a second import through the SAME handler must again reproduce the exporter's cache (both sides now have the new types hash); " +
	"non-trivial = the second import ran (always)"

// TestC14LateRegistration: the Export handler validates against the current types hash.
func TestC14LateRegistration(t *testing.T) {
	runCheck(t, "C14", "C14LateRegistration", c14cRule, func(c *Case) {
		first := c.Int("first-set", 1, 255)
		extra := c.Pick("extra", 8)
		first &^= 1 << extra

		cmd := exec.Command(os.Args[0])
		cmd.Env = append(os.Environ(), "VERIF_CHILD=late", fmt.Sprintf("VERIF_LATE=%d,%d", first, extra))

		out, err := cmd.CombinedOutput()
		c.Tracef("child(first=%b extra=%d): %s", first, extra, strings.TrimSpace(string(out)))
		c.NonTrivial()

		if err != nil || !strings.Contains(string(out), "LATE=OK") {
			msg := string(out)
			if i := strings.Index(msg, "LATE=FAIL"); i >= 0 {
				msg = msg[i:]
			}

			c.Failf("late-registration", "types %b registered, import ok, then type #%d registered: %s (%v)", first, extra, firstLine(msg), err)
		}
	})
}

// childLateMain runs the late-registration scenario in a fresh process.
func childLateMain() {
	var first, extra int

	_, _ = fmt.Sscanf(os.Getenv("VERIF_LATE"), "%d,%d", &first, &extra)

	for i := 0; i < 8; i++ {
		if first&(1<<i) != 0 {
			cache.GobRegister(hashPool[i])
		}
	}

	cache.GobRegister("")

	src := cache.NewShardedMap()
	_ = src.Write(bg, []byte("k1"), "v1")

	for i := 0; i < 8; i++ {
		if first&(1<<i) != 0 {
			_ = src.Write(bg, []byte(fmt.Sprintf("t%d", i)), hashPool[i])
		}
	}

	exp := &cache.HTTPTransfer{}
	exp.AddCache("c", src)
	handler := exp.Export()

	doImport := func(stage string) bool {
		dst := cache.NewSyncMap()
		imp := &cache.HTTPTransfer{Transport: &fakeTransport{handler: handler, faults: map[string]rtFault{}, sizes: map[string]int{}, seen: map[string]int{}}}
		imp.AddCache("c", dst)

		if err := imp.Import(bg, "http://exporter.invalid/x"); err != nil {
			fmt.Printf("LATE=FAIL %s: Import returned %v\n", stage, err)

			return false
		}

		want := plainDump{be: &shardedBE{c: src}}.rows()
		got := plainDump{be: &syncBE{c: dst}}.rows()

		if ok, diff := rowsEqual(false, want, got); !ok {
			fmt.Printf("LATE=FAIL %s: imported cache differs from the exporter's: %s\n", stage, diff)

			return false
		}

		return true
	}

	if !doImport("before late registration") {
		return
	}

	cache.GobRegister(hashPool[extra])
	_ = src.Write(bg, []byte("late"), hashPool[extra])

	if !doImport("after registering one more type") {
		return
	}

	fmt.Println("LATE=OK")
}
