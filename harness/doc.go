// Package harness holds the property-based checks for bool64/cache.
package harness
