package harness

import (
	"context"
	"fmt"
	"runtime"
	"sync"
	"testing"
	"testing/synctest"
	"time"

	"github.com/bool64/cache"
)

const c02pRule = "a builder may also panic (the caller of that Get recovers): owner Get on an absent or too-stale key with a builder that panics once released, 1-4 further Gets of the key (plain / SkipRead, with their own builders) that arrive while it is parked; 5 frontend/backend variants x SyncRead x FailHard x FailedUpdateTTL; " +
	"oracle: every other Get returns either a value that a builder invocation for the key produced (its own, if it had to build after the aborted one) or the stored stale value, or a non-nil error - never a zero/nil value with a nil error; no key lock remains; " +
	"non-trivial = at least one Get was waiting for the build that panicked"

type builderPanic struct{ key string }

// TestC02PanickingBuilder: waiters of a build that panics are not handed a fabricated result.
func TestC02PanickingBuilder(t *testing.T) {
	runCheck(t, "C02", "C02PanickingBuilder", c02pRule, func(c *Case) {
		cfg := foCfg{
			variant: c.Pick("variant", nVariants), syncRead: c.Bool("SyncRead"), failHard: c.Bool("FailHard"), syncUpdate: c.Bool("SyncUpdate"),
			backendTTL: time.Hour, failedUpdateTTL: []time.Duration{0, -1}[c.Pick("FailedUpdateTTL", 2)], maxStaleness: time.Second,
		}
		staleOld := c.Bool("initially-too-stale")
		nw := c.Int("waiters", 1, 4)
		skip := make([]bool, nw)

		for i := range skip {
			skip[i] = c.Weighted("waiter-skipread", 3, 1) == 1
		}

		c.Class("variant=" + variantNames[cfg.variant])
		c.Tracef("config: %s; key initially too stale=%v; %d further Gets (SkipRead %v)", cfg, staleOld, nw, skip)

		c.Bubble(func() {
			w := newWorld(c, cfg)
			key := []byte("pk")

			if staleOld {
				_ = w.be.Write(ttlCtx(time.Second), key, initToken(key))
				time.Sleep(time.Hour)
			}

			w.attach()

			var (
				mu       sync.Mutex
				results  = map[string]string{}
				built    = map[string]bool{}
				panicked interface{}
				waiting  int
			)

			release := make(chan struct{})
			released := false
			openRelease := func() {
				if !released {
					released = true
					close(release)
				}
			}
			c.OnClose(0, openRelease)

			var wg sync.WaitGroup

			wg.Add(1)

			go func() {
				defer wg.Done()
				defer func() {
					mu.Lock()
					panicked = recover()
					mu.Unlock()
				}()

				_, _ = w.fe.Get(context.Background(), append([]byte{}, key...), func(context.Context) (string, error) {
					<-release
					panic(builderPanic{key: string(key)})
				})
			}()

			synctest.Wait()

			for i := 0; i < nw; i++ {
				i := i
				ctx := context.Background()

				if skip[i] {
					ctx = cache.WithSkipRead(ctx)
				}

				wg.Add(1)

				go func() {
					defer wg.Done()

					who := fmt.Sprintf("w%d", i)
					tok := tokenFor(key, who, 1)
					v, err := w.fe.Get(ctx, append([]byte{}, key...), func(context.Context) (string, error) {
						mu.Lock()
						built[tok] = true
						mu.Unlock()

						return tok, nil
					})

					mu.Lock()
					results[who] = fmt.Sprintf("(%#v, %v)", v, err)

					if err == nil {
						s, _ := v.(string)
						if !(built[s] || s == initToken(key)) {
							results[who] += " FABRICATED"
						}
					}
					mu.Unlock()
				}()
			}

			synctest.Wait()

			mu.Lock()
			waiting = nw - len(results)
			mu.Unlock()

			if waiting > 0 {
				c.Class("gets-waiting-for-the-panicking-build")
				c.NonTrivial()
			}

			openRelease()
			wg.Wait()
			synctest.Wait()

			c.Tracef("owner's caller recovered %v; %d Gets were waiting; results %v", panicked, waiting, results)

			// (whether the panic reaches the owner's caller or is turned into an error is not part of C02)
			if bp, ok := panicked.(builderPanic); ok && bp.key == string(key) {
				c.Class("panic-reached-the-owner's-caller")
			}

			for who, r := range results {
				if len(r) > 10 && r[len(r)-10:] == "FABRICATED" {
					c.Failf("zero-value-nil-error", "%s Get(%s) returned %s after the build it waited for panicked: not a value any builder produced or that was stored", who, keyName(key), r)
				}
			}

			c.Assert(len(results) == nw, "stuck-get", "%d of %d Gets have not returned after the owner's builder panicked", nw-len(results), nw)
			c.Assert(w.fe.KeyLocks() == 0, "leaked-key-lock", "%d key lock(s) still held", w.fe.KeyLocks())
		})
	})
}

const c04gRule = "a background build whose function ends its goroutine (runtime.Goexit, what t.FailNow does inside a builder): key acceptably stale, SyncUpdate off, 5 variants x SyncRead x MaxStaleness {0, 1h}; the Get is served the stale value, the background builder exits its goroutine; " +
	"oracle: no key lock remains afterwards, and a Get after UpdateTTL (the re-stored stale value has expired again) invokes its builder and returns; non-trivial = always"

// TestC04GoexitBuilder: a background build that never returns normally still releases its key lock.
func TestC04GoexitBuilder(t *testing.T) {
	runCheck(t, "C04", "C04GoexitBuilder", c04gRule, func(c *Case) {
		cfg := foCfg{
			variant: c.Pick("variant", nVariants), syncRead: c.Bool("SyncRead"), backendTTL: time.Hour, failedUpdateTTL: -1,
			maxStaleness: []time.Duration{0, time.Hour}[c.Pick("MaxStaleness", 2)], updateTTL: time.Minute,
		}

		c.Class("variant=" + variantNames[cfg.variant])
		c.Tracef("config: %s", cfg)
		c.NonTrivial()

		c.Bubble(func() {
			w := newWorld(c, cfg)
			key := []byte("gk")
			_ = w.be.Write(ttlCtx(time.Second), key, initToken(key))

			time.Sleep(2 * time.Second)
			w.attach()

			exited := false
			v, err := w.fe.Get(context.Background(), append([]byte{}, key...), func(context.Context) (string, error) {
				exited = true

				runtime.Goexit()

				return "", nil
			})
			synctest.Wait()

			c.Tracef("first Get = (%v, %v), background builder entered=%v", v, err, exited)
			c.Assert(err == nil && gstr(v) == initToken(key), "stale-not-served", "Get on an acceptably stale key returned (%v, %v)", v, err)
			c.Assert(exited, "no-background-build", "the background builder was not invoked")
			c.Assert(w.fe.KeyLocks() == 0, "leaked-key-lock", "%d key lock(s) still held after the background builder ended its goroutine", w.fe.KeyLocks())

			time.Sleep(2 * time.Minute) // the re-stored stale value (UpdateTTL 1m) has expired again

			var (
				v2    interface{}
				err2  error
				done  bool
				built int
			)

			go func() {
				v2, err2 = w.fe.Get(context.Background(), append([]byte{}, key...), func(context.Context) (string, error) {
					built++

					return tokenFor(key, "second", 1), nil
				})
				done = true
			}()

			synctest.Wait()
			c.Tracef("later Get done=%v = (%v, %v), builder invoked %d times", done, v2, err2, built)
			c.Assert(done, "stuck-get", "a Get after the aborted background build has not returned")
			c.Assert(built == 1, "followup-no-build", "a Get after the aborted background build (stale value expired again) invoked its builder %d times, want 1", built)
		})
	})
}
