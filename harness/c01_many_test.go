package harness

import (
	"context"
	"fmt"
	"sync"
	"testing"
	"testing/synctest"
	"time"

	"github.com/bool64/cache"
)

const c01mRule = "bursts over MANY keys (2..520 distinct keys, initially absent or stale, one Get each, all builders parked at the same time), then the burst drains in a generated order down to 1-3 builds still in flight, " +
	"then 1-3 late Gets (plain or SkipRead) arrive for the keys still building; oracle: per-key in-flight counter never exceeds 1, every Get returns a value built for its own key, no key lock remains at quiescence; " +
	"non-trivial = at least 100 keys were locked at the same time"

// TestC01ManyKeys: the table of key locks stays correct when it grows large and drains.
func TestC01ManyKeys(t *testing.T) {
	runCheck(t, "C01", "C01ManyKeys", c01mRule, propManyKeys)
}

func propManyKeys(c *Case) {
	cfg := foCfg{
		variant: c.Pick("variant", nVariants), syncUpdate: c.Bool("SyncUpdate"), syncRead: c.Bool("SyncRead"),
		backendTTL: time.Hour, failedUpdateTTL: []time.Duration{0, -1}[c.Pick("FailedUpdateTTL", 2)],
	}
	n := []int{2, 9, 100, 255, 256, 257, 300, 520}[c.Pick("keys", 8)]
	survivors := c.Int("survivors", 1, 3)
	if survivors > n {
		survivors = n
	}

	stale := c.Weighted("initially-stale", 2, 1) == 1 // stale-old: MaxStaleness exceeded, every Get builds synchronously
	if stale {
		cfg.maxStaleness = time.Second
	}

	drain := c.Pick("drain-order", 3) // ascending, descending, survivors in the middle
	nLate := c.Int("late-gets", 1, 3)
	lateSkip := make([]bool, nLate)

	for i := range lateSkip {
		lateSkip[i] = c.Weighted("late-skipread", 3, 1) == 1
	}

	c.Class("variant=" + variantNames[cfg.variant])
	c.Class(fmt.Sprintf("keys=%d", n))
	c.Tracef("config: %s; %d keys (initially stale=%v), %d builds stay in flight while the rest drains (order %d), %d late Gets per surviving key (SkipRead %v)",
		cfg, n, stale, survivors, drain, nLate, lateSkip)

	if n >= 100 {
		c.NonTrivial()
	}

	c.Bubble(func() {
		w := newWorld(c, cfg)

		keys := make([][]byte, n)
		for i := range keys {
			keys[i] = []byte(fmt.Sprintf("many-%04d", i))

			if stale {
				_ = w.be.Write(ttlCtx(time.Second), keys[i], initToken(keys[i]))
			}
		}

		if stale {
			time.Sleep(time.Hour)
		}

		w.attach()

		var (
			mu       sync.Mutex
			inflight = map[string]int{}
			builds   = map[string]int{}
			overlap  string
			results  []string
			pending  int
		)

		release := make([]chan struct{}, n)
		released := make([]bool, n)

		for i := range release {
			release[i] = make(chan struct{})
		}

		open := func(i int) {
			if !released[i] {
				released[i] = true
				close(release[i])
			}
		}

		// whatever happens, no builder stays parked when the case ends
		c.OnClose(0, func() {
			for i := range release {
				open(i)
			}
		})

		get := func(i int, ctx context.Context, who string) {
			mu.Lock()
			pending++
			mu.Unlock()

			go func() {
				key := append([]byte{}, keys[i]...)

				v, err := w.fe.Get(ctx, key, func(context.Context) (string, error) {
					mu.Lock()
					inflight[string(keys[i])]++
					builds[string(keys[i])]++

					if inflight[string(keys[i])] > 1 && overlap == "" {
						overlap = fmt.Sprintf("builder for key %s entered by %s while another build of the key is in flight", keyName(keys[i]), who)
					}

					nb := builds[string(keys[i])]
					mu.Unlock()

					<-release[i]

					mu.Lock()
					inflight[string(keys[i])]--
					mu.Unlock()

					return tokenFor(keys[i], who, nb), nil
				})

				mu.Lock()
				pending--

				if tk, ok := tokenKey(v); err != nil || !ok || tk != string(keys[i]) {
					results = append(results, fmt.Sprintf("%s Get(%s) = (%v, %v)", who, keyName(keys[i]), v, err))
				}
				mu.Unlock()
			}()
		}

		for i := 0; i < n; i++ {
			get(i, context.Background(), fmt.Sprintf("g%d", i))
		}

		synctest.Wait()

		mu.Lock()
		locked := 0

		for _, v := range inflight {
			locked += v
		}
		mu.Unlock()

		c.Assert(locked == n, "burst-not-parked", "%d of %d builders are parked after the burst", locked, n)
		c.Tracef("%d key locks while %d builds are in flight", w.fe.KeyLocks(), n)

		// which builds stay in flight
		first := 0

		switch drain {
		case 1:
			first = n - survivors
		case 2:
			first = (n - survivors) / 2
		}

		surviving := map[int]bool{}
		for i := first; i < first+survivors; i++ {
			surviving[i] = true
		}

		for j := 0; j < n; j++ {
			i := j
			if drain == 1 {
				i = n - 1 - j
			}

			if !surviving[i] {
				open(i)
				synctest.Wait() // one at a time: the table shrinks step by step
			}
		}

		c.Tracef("%d key locks remain, %d builds are still in flight", w.fe.KeyLocks(), survivors)

		for i := range surviving {
			for l := 0; l < nLate; l++ {
				ctx := context.Background()
				if lateSkip[l] {
					ctx = cache.WithSkipRead(ctx)
				}

				get(i, ctx, fmt.Sprintf("late%d.%d", i, l))
			}
		}

		synctest.Wait()

		mu.Lock()
		ov := overlap
		mu.Unlock()

		if ov != "" {
			c.Failf("overlap", "overlap: %s (after a burst over %d keys drained to %d)", ov, n, survivors)
		}

		for i := range surviving {
			open(i)
		}

		synctest.Wait()

		// (a late Get that builds once more after the first build ended finds its channel closed already)
		mu.Lock()
		defer mu.Unlock()

		c.Assert(overlap == "", "overlap", "overlap: %s", overlap)
		c.Assert(pending == 0, "get-never-returned", "%d Gets have not returned at quiescence", pending)
		c.Assert(len(results) == 0, "wrong-result", "%d Gets returned something else than a value built for their key, e.g. %v", len(results), results)
		c.Assert(w.fe.KeyLocks() == 0, "key-lock-leaked", "%d key locks remain at quiescence", w.fe.KeyLocks())
	})
}
