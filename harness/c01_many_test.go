package harness

import (
	"context"
	"fmt"
	"sync"
	"testing"
	"testing/synctest"
	"time"

	"github.com/bool64/cache"
)

const c01mRule = "bursts over MANY keys (2..17000 distinct keys, initially absent or stale, one Get each, all builders parked at the same time), then the burst drains in a generated order down to 1-3 builds still in flight, " +
	"then 1-3 late Gets (plain or SkipRead) arrive for the keys still building; oracle: per-key in-flight counter never exceeds 1, every Get returns a value built for its own key, no key lock remains at quiescence; " +
	"non-trivial = at least 100 keys were locked at the same time"

// TestC01ManyKeys: the table of key locks stays correct when it grows large and drains.
func TestC01ManyKeys(t *testing.T) {
	runCheck(t, "C01", "C01ManyKeys", c01mRule, propManyKeys)
}

func propManyKeys(c *Case) {
	cfg := foCfg{
		variant: c.Pick("variant", nVariants), syncUpdate: c.Bool("SyncUpdate"), syncRead: c.Bool("SyncRead"),
		backendTTL: time.Hour, failedUpdateTTL: []time.Duration{0, -1}[c.Pick("FailedUpdateTTL", 2)],
	}
	n := []int{2, 9, 100, 255, 256, 257, 300, 520, 1030, 2100, 4200, 17000}[c.Weighted("keys", 6, 6, 6, 6, 6, 6, 6, 6, 4, 2, 2, 3)]
	survivors := c.Int("survivors", 1, 3)
	if survivors > n {
		survivors = n
	}

	// initial state of every key: absent (sync build), stale beyond MaxStaleness (sync build), or
	// acceptably stale (the Get is served at once, the build runs in background)
	initial := c.Weighted("initial", 3, 2, 3)
	stale := initial != 0
	background := initial == 2

	if initial == 1 {
		cfg.maxStaleness = time.Second
	}

	if background {
		cfg.syncUpdate = false
		c.Class("background-updates")
	}

	cfg.noopBackend = initial == 0 && cfg.variant != 2 && c.Weighted("NoOp-backend", 5, 1) == 1
	cfg.directNoOp = cfg.noopBackend
	cfg.siblingFailover = c.Weighted("sibling-failover", 5, 1) == 1

	cancelCallers := background && c.Bool("cancel-callers-after-return")
	churn := []int{0, 300, 70000}[c.Weighted("churn-while-in-flight", 16, 3, 1)]

	drain := c.Pick("drain-order", 3) // ascending, descending, survivors in the middle
	nLate := c.Int("late-gets", 1, 3)
	lateSkip := make([]bool, nLate)

	for i := range lateSkip {
		lateSkip[i] = c.Weighted("late-skipread", 3, 1) == 1
	}

	c.Class("variant=" + variantNames[cfg.variant])
	c.Class(fmt.Sprintf("keys=%d", n))
	c.Tracef("config: %s; %d keys (initial state %d), %d builds stay in flight while the rest drains (order %d), %d late Gets per surviving key (SkipRead %v); callers cancelled after return=%v; %d other Gets while builds are in flight",
		cfg, n, initial, survivors, drain, nLate, lateSkip, cancelCallers, churn)

	if n >= 100 {
		c.NonTrivial()
	}

	c.Bubble(func() {
		w := newWorld(c, cfg)

		keys := make([][]byte, n)
		for i := range keys {
			keys[i] = []byte(fmt.Sprintf("many-%04d", i))

			if stale {
				_ = w.be.Write(ttlCtx(time.Second), keys[i], initToken(keys[i]))
			}
		}

		if stale {
			time.Sleep(time.Hour)
		}

		w.attach()

		var (
			mu       sync.Mutex
			inflight = map[string]int{}
			builds   = map[string]int{}
			overlap  string
			results  []string
			pending  int
		)

		release := make([]chan struct{}, n)
		released := make([]bool, n)

		for i := range release {
			release[i] = make(chan struct{})
		}

		open := func(i int) {
			if !released[i] {
				released[i] = true
				close(release[i])
			}
		}

		// whatever happens, no builder stays parked when the case ends
		c.OnClose(0, func() {
			for i := range release {
				open(i)
			}
		})

		get := func(i int, ctx context.Context, who string) {
			mu.Lock()
			pending++
			mu.Unlock()

			go func() {
				key := append([]byte{}, keys[i]...)

				v, err := w.fe.Get(ctx, key, func(context.Context) (string, error) {
					mu.Lock()
					inflight[string(keys[i])]++
					builds[string(keys[i])]++

					if inflight[string(keys[i])] > 1 && overlap == "" {
						overlap = fmt.Sprintf("builder for key %s entered by %s while another build of the key is in flight", keyName(keys[i]), who)
					}

					nb := builds[string(keys[i])]
					mu.Unlock()

					<-release[i]

					mu.Lock()
					inflight[string(keys[i])]--
					mu.Unlock()

					return tokenFor(keys[i], who, nb), nil
				})

				mu.Lock()
				pending--

				if tk, ok := tokenKey(v); err != nil || !ok || tk != string(keys[i]) {
					results = append(results, fmt.Sprintf("%s Get(%s) = (%v, %v)", who, keyName(keys[i]), v, err))
				}
				mu.Unlock()
			}()
		}

		var cancels []context.CancelFunc

		for i := 0; i < n; i++ {
			ctx, cancel := context.WithCancel(context.Background())
			cancels = append(cancels, cancel)
			c.OnClose(0, cancel)
			get(i, ctx, fmt.Sprintf("g%d", i))
		}

		synctest.Wait()

		if background {
			// a Get that is served a stale value depends on no builder invocation: it has returned
			mu.Lock()
			p := pending
			mu.Unlock()

			c.Assert(p == 0, "get-waits-for-unrelated-builds", "%d of %d Gets served from acceptable stale values have not returned while background builds are parked", p, n)

			if cancelCallers {
				for _, cancel := range cancels {
					cancel()
				}

				synctest.Wait()
				c.Class("callers-cancelled-while-background-builds-run")
			}

			// let every background build finish (however many may run at a time)
			for i := range release {
				open(i)
			}

			synctest.Wait()

			mu.Lock()
			defer mu.Unlock()

			missing := 0

			for i := range keys {
				if builds[string(keys[i])] != 1 {
					missing++
				}
			}

			c.Assert(missing == 0, "background-build-lost", "%d of %d keys were not rebuilt exactly once by their background update (callers cancelled after return: %v)", missing, n, cancelCallers)
			c.Assert(overlap == "", "overlap", "overlap: %s", overlap)
			c.Assert(len(results) == 0, "wrong-result", "%d Gets returned something else than a value of their key, e.g. %v", len(results), results)
			c.Assert(w.fe.KeyLocks() == 0, "key-lock-leaked", "%d key locks remain at quiescence", w.fe.KeyLocks())

			return
		}

		mu.Lock()
		locked := 0

		for _, v := range inflight {
			locked += v
		}
		mu.Unlock()

		c.Assert(locked == n, "burst-not-parked", "%d of %d builders are parked after the burst", locked, n)
		c.Tracef("%d key locks while %d builds are in flight", w.fe.KeyLocks(), n)

		// which builds stay in flight
		first := 0

		switch drain {
		case 1:
			first = n - survivors
		case 2:
			first = (n - survivors) / 2
		}

		surviving := map[int]bool{}
		for i := first; i < first+survivors; i++ {
			surviving[i] = true
		}

		for j := 0; j < n; j++ {
			i := j
			if drain == 1 {
				i = n - 1 - j
			}

			if !surviving[i] {
				open(i)
				synctest.Wait() // one at a time: the table shrinks step by step
			}
		}

		c.Tracef("%d key locks remain, %d builds are still in flight", w.fe.KeyLocks(), survivors)

		// a long history of other Gets (each takes and releases a key lock) while those builds run
		for j := 0; j < churn; j++ {
			k := []byte(fmt.Sprintf("churn-%06d", j))
			_, err := w.fe.Get(context.Background(), k, func(context.Context) (string, error) { return tokenFor(k, "churn", j), nil })
			c.Assert(err == nil, "churn-get", "Get(%s) = %v", k, err)
		}

		if churn > 0 {
			c.Class(fmt.Sprintf("churn=%d", churn))
		}

		for i := range surviving {
			for l := 0; l < nLate; l++ {
				ctx := context.Background()
				if lateSkip[l] {
					ctx = cache.WithSkipRead(ctx)
				}

				get(i, ctx, fmt.Sprintf("late%d.%d", i, l))
			}
		}

		synctest.Wait()

		mu.Lock()
		ov := overlap
		mu.Unlock()

		if ov != "" {
			c.Failf("overlap", "overlap: %s (after a burst over %d keys drained to %d)", ov, n, survivors)
		}

		for i := range surviving {
			open(i)
		}

		synctest.Wait()

		// (a late Get that builds once more after the first build ended finds its channel closed already)
		mu.Lock()
		defer mu.Unlock()

		c.Assert(overlap == "", "overlap", "overlap: %s", overlap)
		c.Assert(pending == 0, "get-never-returned", "%d Gets have not returned at quiescence", pending)
		c.Assert(len(results) == 0, "wrong-result", "%d Gets returned something else than a value built for their key, e.g. %v", len(results), results)
		c.Assert(w.fe.KeyLocks() == 0, "key-lock-leaked", "%d key locks remain at quiescence", w.fe.KeyLocks())
	})
}
