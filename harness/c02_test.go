package harness

import (
	"bytes"
	"errors"
	"fmt"
	"testing"
)

const c02Rule = "C01's generated schedules and configurations plus fault injection: any backend Read/Write about to be resumed may be replaced by a unique injected error (up to 2 per case); unique token per builder invocation, unique error object per failing invocation; " +
	"oracle: every (v,nil) result is a token for the Get's own key that a finished successful build of that key produced no later than the return, or that was stored under the key; every error is a builder error of that key or an injected backend error of that key; " +
	"non-trivial = a waiter was seen, or a fault was injected, or >=2 keys had builds"

// TestC02Provenance: Failover results always have provenance; nothing is fabricated or mixed up.
func TestC02Provenance(t *testing.T) {
	runCheck(t, "C02", "C02Provenance", c02Rule, func(c *Case) {
		// keys that differ only by a trailing zero byte, and the empty key, are distinct keys
		// and two distinct keys with the same 64-bit xxhash are distinct keys as well
		collBase := bytes.Repeat([]byte("collide!"), 8)
		keys := [][][]byte{scenKeys, {[]byte("k1"), []byte("k1\x00"), []byte("k1\x00\x00")}, {[]byte(""), []byte("\x00"), []byte("k3")},
			{collBase, collide(collBase, 1, 0x9E3779B97F4A7C15), []byte("k3")}}[c.Weighted("key-alphabet", 3, 1, 1, 1)]

		propFailoverSched(c, scenOpts{keys: keys, maxKeys: 3, minGets: 2, maxGets: 6, skipRead: true, clock: 3, external: 2, prefail: true, postActions: true, faults: 2, failPct: 40, errKinds: true, restorePrep: true, extCleanup: true},
			func(w *world, sc *scenario, complete bool) {
				w.checkProvenance()

				keysBuilt := map[string]bool{}
				for _, b := range w.log.builds {
					if b.getIdx >= 0 {
						keysBuilt[b.key] = true
					}
				}

				if c.classes["waiter-seen(log)"] || c.classes["fault-read"] || c.classes["fault-write"] || len(keysBuilt) >= 2 {
					c.NonTrivial()
				}
			})
	})
}

// checkProvenance applies the C02 oracle to every finished Get of the log.
func (w *world) checkProvenance() {
	c := w.c
	l := w.log

	for _, g := range l.gets {
		if !g.done {
			continue
		}

		key := []byte(g.key)

		if g.err == nil {
			tk, ok := tokenKey(g.val)
			if !ok {
				c.Failf("zero-value-nil-error", "%s Get(%s) returned (%#v, nil): not a value any builder produced or that was stored",
					g.task, keyName(key), g.val)
			}

			c.Assert(tk == g.key, "wrong-key-value", "%s Get(%s) returned %v which belongs to key %s", g.task, keyName(key), g.val, keyName([]byte(tk)))

			tok := g.val.(string)
			okProv := l.stored[g.key][tok]

			for _, b := range l.builds {
				if b.key == g.key && b.err == nil && b.tok == tok && b.exitStep >= 0 && b.exitStep <= g.returnStep {
					okProv = true
				}
			}

			c.Assert(okProv, "unfinished-build-value", "%s Get(%s) returned %v: no finished build of the key produced it by step %d and it was never stored", g.task, keyName(key), tok, g.returnStep)
			c.Class("result=value")

			continue
		}

		okErr := false

		for _, b := range l.builds {
			if b.key == g.key && b.err != nil && errors.Is(g.err, b.err) {
				okErr = true
				c.Class("result=builder-error")
			}
		}

		for _, ie := range l.berrs[g.key] {
			if errors.Is(g.err, ie) {
				okErr = true
				c.Class("result=backend-error")
			}
		}

		if !okErr {
			sig := "foreign-error"

			var be *buildErr
			if errors.As(g.err, &be) {
				sig = "wrong-key-error"
			}

			c.Failf(sig, "%s Get(%s) returned error %q which no builder invocation for the key and no backend call for the key produced", g.task, keyName(key), fmt.Sprint(g.err))
		}
	}
}

const c02bRule = "single-fault enumeration: a fault-free base case (scenario + schedule) is generated as in C02Provenance; then for EVERY backend call index of the base run the same scenario and recorded schedule are re-executed with that one call failing (unique injected error); " +
	"the provenance oracle and the quiescence oracle (no stuck Get, no leaked key lock) are applied to every re-execution; a case = base run + all its fault positions; non-trivial = the base run had >=3 backend calls and >=2 Gets"

// TestC02FaultEnum enumerates every backend call of sampled schedules as the single fault position.
func TestC02FaultEnum(t *testing.T) {
	runCheck(t, "C02", "C02FaultEnum", c02bRule, func(c *Case) {
		o := scenOpts{maxKeys: 2, minGets: 1, maxGets: 4, skipRead: true, clock: 2, external: 1, prefail: true, postActions: true, failPct: 35, errKinds: true}
		sc := drawScenario(c, o)
		sc.describe(c)
		mark := len(c.Choices)

		calls := 0

		run := func(cc *Case, faultAt int) {
			cc.Bubble(func() {
				w := newWorld(cc, sc.cfg)
				w.faultAtCall = faultAt
				w.prepare(sc)

				complete := w.runSchedule(freshGets(sc), ctlOpts{clockSteps: o.clock, clockMenu: sc.cfg.clockMenu(), external: o.external})
				w.reportProblems()
				w.checkProvenance()

				if complete {
					for _, g := range w.log.gets {
						cc.Assert(g.done, "stuck-get", "fault at backend call #%d: %s Get(%s) never returned", faultAt, g.task, keyName([]byte(g.key)))
					}

					cc.Assert(w.fe.KeyLocks() == 0, "leaked-key-lock", "fault at backend call #%d: %d key lock(s) remain", faultAt, w.fe.KeyLocks())
				}

				if faultAt < 0 {
					calls = w.wrap.calls
				}
			})
		}

		run(c, -1)

		schedule := append([]int{}, c.Choices[mark:]...)

		if calls >= 3 && len(sc.gets) >= 2 {
			c.NonTrivial()
		}

		for i := 0; i < calls; i++ {
			sub := newCase(c.Prop, c.Check, &scriptChooser{vals: schedule}, c.tt, nil)
			runCase(sub, func(cc *Case) { run(cc, i) })

			if sub.fail != nil {
				for _, l := range sub.trace {
					c.Tracef("  [fault@%d] %s", i, l)
				}

				c.Failf(sub.fail.Sig, "with backend call #%d of %d failing: %s", i, calls, sub.fail.Msg)
			}

			c.known = append(c.known, sub.known...)
		}

		st := statsFor("C02", "C02FaultEnum", c02bRule)
		st.mu.Lock()
		st.Extra["fault_positions_enumerated"] += calls
		st.Extra["executions"] += calls + 1
		st.mu.Unlock()
	})
}

// freshGets returns copies of the scenario's Get specs (a spec carries per-run state).
func freshGets(sc *scenario) []*getSpec {
	out := make([]*getSpec, len(sc.gets))
	for i, g := range sc.gets {
		cp := *g
		cp.buf, cp.ctx, cp.cancelFn = nil, nil, nil
		out[i] = &cp
	}

	return out
}
