package harness

import (
	"errors"
	"fmt"
	"testing"
)

const c02Rule = "C01's generated schedules and configurations plus fault injection: any backend Read/Write about to be resumed may be replaced by a unique injected error (up to 2 per case); unique token per builder invocation, unique error object per failing invocation; " +
	"oracle: every (v,nil) result is a token for the Get's own key that a finished successful build of that key produced no later than the return, or that was stored under the key; every error is a builder error of that key or an injected backend error of that key; " +
	"non-trivial = a waiter was seen, or a fault was injected, or >=2 keys had builds"

// TestC02Provenance: Failover results always have provenance; nothing is fabricated or mixed up.
func TestC02Provenance(t *testing.T) {
	runCheck(t, "C02", "C02Provenance", c02Rule, func(c *Case) {
		propFailoverSched(c, scenOpts{maxKeys: 3, minGets: 2, maxGets: 6, skipRead: true, clock: 3, external: 2, prefail: true, postActions: true, faults: 2, failPct: 40},
			func(w *world, sc *scenario, complete bool) {
				w.checkProvenance()

				keysBuilt := map[string]bool{}
				for _, b := range w.log.builds {
					if b.getIdx >= 0 {
						keysBuilt[b.key] = true
					}
				}

				if c.classes["waiter-seen(log)"] || c.classes["fault-read"] || c.classes["fault-write"] || len(keysBuilt) >= 2 {
					c.NonTrivial()
				}
			})
	})
}

// checkProvenance applies the C02 oracle to every finished Get of the log.
func (w *world) checkProvenance() {
	c := w.c
	l := w.log

	for _, g := range l.gets {
		if !g.done {
			continue
		}

		key := []byte(g.key)

		if g.err == nil {
			tk, ok := tokenKey(g.val)
			if !ok {
				c.Failf("zero-value-nil-error", "%s Get(%s) returned (%#v, nil): not a value any builder produced or that was stored",
					g.task, keyName(key), g.val)
			}

			c.Assert(tk == g.key, "wrong-key-value", "%s Get(%s) returned %v which belongs to key %s", g.task, keyName(key), g.val, keyName([]byte(tk)))

			tok := g.val.(string)
			okProv := l.stored[g.key][tok]

			for _, b := range l.builds {
				if b.key == g.key && b.err == nil && b.tok == tok && b.exitStep >= 0 && b.exitStep <= g.returnStep {
					okProv = true
				}
			}

			c.Assert(okProv, "unfinished-build-value", "%s Get(%s) returned %v: no finished build of the key produced it by step %d and it was never stored", g.task, keyName(key), tok, g.returnStep)
			c.Class("result=value")

			continue
		}

		okErr := false

		for _, b := range l.builds {
			if b.key == g.key && b.err != nil && errors.Is(g.err, b.err) {
				okErr = true
				c.Class("result=builder-error")
			}
		}

		for _, ie := range l.berrs[g.key] {
			if errors.Is(g.err, ie) {
				okErr = true
				c.Class("result=backend-error")
			}
		}

		if !okErr {
			sig := "foreign-error"

			var be *buildErr
			if errors.As(g.err, &be) {
				sig = "wrong-key-error"
			}

			c.Failf(sig, "%s Get(%s) returned error %q which no builder invocation for the key and no backend call for the key produced", g.task, keyName(key), fmt.Sprint(g.err))
		}
	}
}
