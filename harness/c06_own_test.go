package harness

import (
	"context"
	"errors"
	"fmt"
	"testing"
	"testing/synctest"
	"time"

	"github.com/bool64/cache"
)

const c06oRule = "frontends that create their OWN backend (no Backend given; BackendConfig TimeToLive T in {10s, 5m, 2h}, jitter off) with UpdateTTL U in {default 1m, 30s, 1h} on either side of T, observed black-box through Gets with counting builders on a fake clock: " +
	"build v1; after T+1s a Get whose builder fails is served the stale v1, which was re-stored with UpdateTTL; a Get U/2 or U-1ns later is served v1 without building, a Get U+1s later builds exactly once; the value built then (caller TTL none / 20m) is served without building until its TTL and rebuilt after it; " +
	"non-trivial = U differs from T"

// TestC06OwnBackend: UpdateTTL and the final TTL hold for frontends sitting on their own default backend.
func TestC06OwnBackend(t *testing.T) {
	runCheck(t, "C06", "C06OwnBackend", c06oRule, func(c *Case) {
		generic := c.Bool("FailoverOf")
		ttl := []time.Duration{10 * time.Second, 5 * time.Minute, 2 * time.Hour}[c.Pick("TimeToLive", 3)]
		upd := []time.Duration{0, 30 * time.Second, time.Hour}[c.Pick("UpdateTTL", 3)]
		syncUpdate := c.Bool("SyncUpdate")
		syncRead := c.Bool("SyncRead")
		callerTTL := []time.Duration{0, 20 * time.Minute}[c.Pick("callerTTL", 2)]
		within := c.Pick("probe-within-UpdateTTL", 2)

		effU := upd
		if upd == 0 {
			effU = time.Minute
		}

		c.Tracef("FailoverOf=%v BackendConfig.TimeToLive=%v UpdateTTL=%v SyncUpdate=%v SyncRead=%v callerTTL=%v", generic, ttl, upd, syncUpdate, syncRead, callerTTL)

		if effU != ttl {
			c.NonTrivial()
		}

		c.Bubble(func() {
			bcfg := cache.Config{TimeToLive: ttl, ExpirationJitter: -1, ItemsCountReportInterval: farFuture}

			var get func(ctx context.Context, key []byte, build func(ctx context.Context) (string, error)) (interface{}, error)

			if generic {
				fo := cache.NewFailoverOf[string](cache.FailoverConfigOf[string]{BackendConfig: bcfg, UpdateTTL: upd, FailedUpdateTTL: -1, SyncUpdate: syncUpdate, SyncRead: syncRead}.Use)
				c.OnClose(1, fo.VerifClose)

				get = func(ctx context.Context, key []byte, build func(ctx context.Context) (string, error)) (interface{}, error) {
					return fo.Get(ctx, key, build)
				}
			} else {
				fo := cache.NewFailover(cache.FailoverConfig{BackendConfig: bcfg, UpdateTTL: upd, FailedUpdateTTL: -1, SyncUpdate: syncUpdate, SyncRead: syncRead}.Use)
				c.OnClose(1, fo.VerifClose)

				get = func(ctx context.Context, key []byte, build func(ctx context.Context) (string, error)) (interface{}, error) {
					return fo.Get(ctx, key, func(ctx context.Context) (interface{}, error) { return build(ctx) })
				}
			}

			key := []byte("own")
			builds := 0

			probe := func(what string, ctx context.Context, val string, fail error) (interface{}, error, int) {
				before := builds
				v, err := get(ctx, append([]byte{}, key...), func(context.Context) (string, error) {
					builds++

					return val, fail
				})

				synctest.Wait() // a background update finishes

				c.Tracef("%s: Get = (%v, %v), %d builds", what, v, err, builds-before)

				return v, err, builds - before
			}

			v, err, n := probe("initial build", bg, "v1", nil)
			c.Assert(err == nil && gstr(v) == "v1" && n == 1, "first-build", "Get on an empty cache = (%v, %v) with %d builds", v, err, n)

			time.Sleep(ttl + time.Second)

			failure := errors.New("update failed")
			v, err, n = probe("failing update of the expired value", bg, "", failure)
			c.Assert(n == 1, "no-update", "a Get on an expired value invoked the builder %d times, want 1", n)
			c.Assert(err == nil && gstr(v) == "v1", "stale-not-served", "a failed update of an expired value = (%v, %v), want the stale value v1", v, err)

			// the stale value was re-stored with UpdateTTL when the update started
			if within == 0 {
				time.Sleep(effU / 2)
			} else {
				time.Sleep(effU - time.Nanosecond)
			}

			v, err, n = probe(fmt.Sprintf("inside UpdateTTL (%v after the re-store)", time.Duration(0)), bg, "early", nil)
			c.Assert(n == 0 && err == nil && gstr(v) == "v1", "restore-ttl", "UpdateTTL %v: a Get inside UpdateTTL after the stale value was re-stored = (%v, %v) with %d builds, want v1 without building (BackendConfig.TimeToLive %v)", effU, v, err, n, ttl)

			time.Sleep(effU/2 + 2*time.Second)

			ctx := bg
			if callerTTL != 0 {
				ctx = cache.WithTTL(bg, callerTTL, false)
			}

			_, err, n = probe("after UpdateTTL", ctx, "v2", nil)
			c.Assert(n == 1 && err == nil, "restore-ttl", "UpdateTTL %v: a Get after UpdateTTL had passed since the re-store invoked the builder %d times (%v), want 1", effU, n, err)

			built := time.Now()
			eff := callerTTL
			if eff == 0 {
				eff = ttl
			}

			time.Sleep(eff - time.Second)

			v, err, n = probe("inside the TTL of the built value", bg, "v3-early", nil)
			c.Assert(n == 0 && err == nil && gstr(v) == "v2", "final-store-ttl", "value built %v ago with TTL %v: Get = (%v, %v) with %d builds, want v2 without building", time.Since(built), eff, v, err, n)

			time.Sleep(2 * time.Second)

			_, _, n = probe("after the TTL of the built value", bg, "v3", nil)
			c.Assert(n == 1, "final-store-ttl", "value built %v ago with TTL %v: Get invoked the builder %d times, want 1", time.Since(built), eff, n)
		})
	})
}
