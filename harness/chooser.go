package harness

import (
	"pgregory.net/rapid"
)

// Chooser is the only source of nondeterminism a check may use.
// Every check is a pure function of the sequence of integers it returns.
type Chooser interface {
	// Int returns a value in [lo, hi] (inclusive).
	Int(label string, lo, hi int) int
}

// rapidChooser draws from rapid's bitstream (shrinkable).
type rapidChooser struct{ t *rapid.T }

func (r rapidChooser) Int(label string, lo, hi int) int {
	if lo >= hi {
		return lo
	}

	return rapid.IntRange(lo, hi).Draw(r.t, label)
}

// scriptChooser replays a recorded list of choices; this is the replay path
// that bypasses the property-testing library entirely.
type scriptChooser struct {
	vals []int
	pos  int
}

func (s *scriptChooser) Int(_ string, lo, hi int) int {
	if lo >= hi {
		return lo
	}

	v := lo
	if s.pos < len(s.vals) {
		v = s.vals[s.pos]
	}

	s.pos++

	if v < lo {
		v = lo
	}

	if v > hi {
		v = hi
	}

	return v
}

// enumChooser enumerates all choice sequences depth-first (odometer).
// Usage: for e := newEnum(); e.more(); e.next() { run(e) }.
type enumChooser struct {
	path  []enumDigit
	depth int
	first bool
	done  bool
	// maxDepth bounds the number of enumerated digits; deeper choices return lo.
	maxDepth int
}

type enumDigit struct{ v, lo, hi int }

func newEnum(maxDepth int) *enumChooser { return &enumChooser{first: true, maxDepth: maxDepth} }

func (e *enumChooser) Int(_ string, lo, hi int) int {
	if lo >= hi {
		return lo
	}

	if e.maxDepth > 0 && e.depth >= e.maxDepth {
		return lo
	}

	if e.depth < len(e.path) {
		d := &e.path[e.depth]
		// The structure below a fixed prefix is deterministic, ranges must agree.
		if d.lo != lo || d.hi != hi {
			panic("enumChooser: non-deterministic choice structure")
		}

		e.depth++

		return d.v
	}

	e.path = append(e.path, enumDigit{v: lo, lo: lo, hi: hi})
	e.depth++

	return lo
}

// more reports whether another sequence is to be explored; call before each run.
func (e *enumChooser) more() bool {
	if e.first {
		e.first = false
		e.depth = 0

		return true
	}

	// Advance the odometer: drop exhausted trailing digits, increment the last.
	e.path = e.path[:e.depth]
	for len(e.path) > 0 {
		last := &e.path[len(e.path)-1]
		if last.v < last.hi {
			last.v++
			e.depth = 0

			return true
		}

		e.path = e.path[:len(e.path)-1]
	}

	e.done = true

	return false
}

// prefixChooser forces the first choices (used to enumerate a finite table in an outer loop
// while the remaining parameters are drawn); the forced values are recorded like any other.
type prefixChooser struct {
	prefix []int
	pos    int
	inner  Chooser
}

func (p *prefixChooser) Int(label string, lo, hi int) int {
	if p.pos < len(p.prefix) {
		v := p.prefix[p.pos]
		p.pos++

		if v < lo || v > hi {
			panic("prefixChooser: forced value out of range for " + label)
		}

		return v
	}

	return p.inner.Int(label, lo, hi)
}
