package harness

import (
	"fmt"
	"math"
	"testing"
	"time"

	"github.com/bool64/cache"
)

const c10lRule = "a long-lived instance: 40000-140000 jittered writes (distinct keys, frozen fake clock) into one cache, TTL T in {1m, 1h, 1000h, -1h} from the configuration or from the context, ExpirationJitter J in {default 0.1, 0.5, 1}, 3 backends; " +
	"oracle: the expiry Walk reports for EVERY entry lies within [t+T(1-J/2), t+T(1+J/2)] (tolerance 1us + |T|*1e-12 for float rounding), and not all expiries are equal; non-trivial = always"

// TestC10LongLived: the jitter band holds for every write of a long-lived instance, not just the first thousands.
func TestC10LongLived(t *testing.T) {
	runCheck(t, "C10", "C10LongLived", c10lRule, func(c *Case) {
		kind := backendKinds[c.Pick("backend", len(backendKinds))]
		ttl := []time.Duration{time.Minute, time.Hour, 1000 * time.Hour, -time.Hour}[c.Pick("T", 4)]
		jit := []float64{0, 0.5, 1}[c.Pick("J", 3)]
		viaCtx := c.Bool("ttl-from-context")
		n := []int{40000, 70000, 140000}[c.Weighted("writes", 2, 3, 1)]

		effJ := jit
		if jit == 0 {
			effJ = 0.1
		}

		c.Tracef("backend=%s T=%v J=%v (effective %v) ttl from context=%v writes=%d", kind, ttl, jit, effJ, viaCtx, n)
		c.Class("backend=" + kind)
		c.NonTrivial()

		c.Bubble(func() {
			cfg := cache.Config{ExpirationJitter: jit, DeleteExpiredJobInterval: 2 * farFuture, DeleteExpiredAfter: 2 * farFuture, ItemsCountReportInterval: farFuture}
			ctx := bg

			if viaCtx {
				cfg.TimeToLive = 5 * time.Minute
				ctx = cache.WithTTL(bg, ttl, false)
			} else {
				cfg.TimeToLive = ttl
			}

			be := newCaseBackend(c, kind, cfg)
			t0 := time.Now()

			for i := 0; i < n; i++ {
				if viaCtx && i%1000 == 0 {
					ctx = cache.WithTTL(bg, ttl, false) // a fresh context now and then, like separate requests
				}

				_ = be.Write(ctx, []byte(fmt.Sprintf("w%06d", i)), "v")
			}

			a := float64(ttl) * (1 - effJ/2)
			b := float64(ttl) * (1 + effJ/2)
			lo, hi := math.Min(a, b), math.Max(a, b)
			tol := 1000 + math.Abs(float64(ttl))*1e-12

			seen, distinct := 0, map[int64]bool{}

			_, _ = be.Walk(func(k []byte, _ interface{}, exp time.Time) error {
				seen++
				off := float64(exp.UnixNano() - t0.UnixNano())

				if len(distinct) < 3 {
					distinct[exp.UnixNano()] = true
				}

				if off < lo-tol || off > hi+tol {
					c.Failf("jitter-band", "entry %s (one of %d writes at the same instant): expiry offset %v outside [%v, %v] for T=%v J=%v", keyName(k), n, time.Duration(off), time.Duration(lo), time.Duration(hi), ttl, effJ)
				}

				return nil
			})

			c.Assert(seen == n, "walk-count", "Walk visited %d of %d entries", seen, n)
			c.Assert(len(distinct) > 1, "no-jitter", "ExpirationJitter %v: all expiries are equal", effJ)
		})
	})
}
