package harness

import (
	"fmt"
	"testing"
)

const c01Rule = "generated schedule (which parked goroutine runs next at every call-out: backend Read/Write, builder, Failover debug/warn/error logs, Failover stats; when each Get starts; clock jumps; external ExpireAll/Delete) " +
	"over a generated configuration (3 frontend/backend variants x SyncUpdate x SyncRead x FailHard x MaxStaleness x FailedUpdateTTL x UpdateTTL x logger x stats), 1-3 keys each initially absent/fresh/stale-recent/stale-old, 2-6 Gets with caller TTL, SkipRead and scripted builder outcomes; " +
	"oracle: per-key in-flight counter inside the harness builder never exceeds 1; non-trivial = a Get of key k was started or resumed while a build of k was in flight, or >=2 builds of one key happened"

// TestC01SingleBuild: Failover never runs two builds for the same key at the same time.
func TestC01SingleBuild(t *testing.T) {
	runCheck(t, "C01", "C01SingleBuild", c01Rule, func(c *Case) {
		propFailoverSched(c, scenOpts{maxKeys: 3, minGets: 2, maxGets: 6, skipRead: true, clock: 4, external: 2, prefail: true, postActions: true}, nil)
	})
}

// propFailoverSched runs one generated scenario under the scheduler; oracle runs at quiescence.
func propFailoverSched(c *Case, o scenOpts, oracle func(w *world, sc *scenario, complete bool)) {
	sc := drawScenario(c, o)
	sc.describe(c)

	c.Bubble(func() {
		w := newWorld(c, sc.cfg)
		w.prepare(sc)

		complete := w.runSchedule(sc.gets, ctlOpts{
			faults: o.faults, clockSteps: o.clock, clockMenu: sc.cfg.clockMenu(), external: o.external,
		})

		w.reportProblems()
		w.classify(sc)

		if oracle != nil {
			oracle(w, sc, complete)
		}
	})
}

// classify records the measured distribution of interesting shapes.
func (w *world) classify(sc *scenario) {
	c := w.c
	perKey := map[string]int{}
	waiters := w.log.callouts["log:waiting for cache value"]

	for _, b := range w.log.builds {
		if b.getIdx < 0 {
			continue
		}

		perKey[b.key]++

		if b.detachedBG || b.ctxDoneNil {
			c.Class("background-build")
		}

		if b.err != nil {
			c.Class("build-failed")
		}
	}

	maxBuilds := 0
	for _, n := range perKey {
		if n > maxBuilds {
			maxBuilds = n
		}
	}

	switch {
	case maxBuilds >= 3:
		c.Class("builds-per-key>=3")
	case maxBuilds == 2:
		c.Class("builds-per-key=2")
	case maxBuilds == 1:
		c.Class("builds-per-key=1")
	default:
		c.Class("builds-per-key=0")
	}

	if waiters > 0 {
		c.Class("waiter-seen(log)")
	}

	if maxBuilds >= 2 || c.classes["step-while-build-in-flight"] {
		c.NonTrivial()
	}

	c.Class(fmt.Sprintf("gets=%d", len(sc.gets)))
}
