package harness

import (
	"fmt"
	"os"
	"testing"
	"time"
)

const c01Rule = "generated schedule (which parked goroutine runs next at every call-out: backend Read/Write, builder, Failover debug/warn/error logs, Failover stats; when each Get starts; clock jumps; external ExpireAll/Delete) " +
	"over a generated configuration (5 frontend/backend variants (Failover over ShardedMap/SyncMap, FailoverOf[string] over ShardedMapOf, FailoverOf[any] over ShardedMap/SyncMap) x SyncUpdate x SyncRead x FailHard x MaxStaleness x FailedUpdateTTL x UpdateTTL x logger x stats), 1-3 keys each initially absent/fresh/stale-recent/stale-old, 2-6 Gets with caller TTL, SkipRead and scripted builder outcomes; " +
	"oracle: per-key in-flight counter inside the harness builder never exceeds 1; non-trivial = a Get of key k was started or resumed while a build of k was in flight, or >=2 builds of one key happened"

// TestC01SingleBuild: Failover never runs two builds for the same key at the same time.
func TestC01SingleBuild(t *testing.T) {
	runCheck(t, "C01", "C01SingleBuild", c01Rule, func(c *Case) {
		noop := c.Weighted("NoOp-backend", 7, 1) == 1 // the single-build oracle does not look at the backend

		propFailoverSched(c, scenOpts{maxKeys: 3, minGets: 2, maxGets: 6, skipRead: true, clock: 4, external: 2, prefail: true, postActions: true, errKinds: true, faults: 1, nested: true,
			forceCfg: func(cfg *foCfg) { cfg.noopBackend = noop && cfg.variant != 2 }}, nil)
	})
}

// propFailoverSched runs one generated scenario under the scheduler; oracle runs at quiescence.
func propFailoverSched(c *Case, o scenOpts, oracle func(w *world, sc *scenario, complete bool)) {
	sc := drawScenario(c, o)
	sc.describe(c)

	c.Bubble(func() {
		w := newWorld(c, sc.cfg)
		w.prepare(sc)

		complete := w.runSchedule(sc.gets, ctlOpts{
			faults: o.faults, clockSteps: o.clock, clockMenu: sc.cfg.clockMenu(), external: o.external, extCleanup: o.extCleanup,
		})

		w.reportProblems()
		w.checkSide()
		w.classify(sc)

		if oracle != nil {
			oracle(w, sc, complete)
		}
	})
}

// classify records the measured distribution of interesting shapes.
func (w *world) classify(sc *scenario) {
	c := w.c
	perKey := map[string]int{}
	waiters := w.log.callouts["log:waiting for cache value"]

	for _, b := range w.log.builds {
		if b.getIdx < 0 {
			continue
		}

		perKey[b.key]++

		if b.detachedBG || b.ctxDoneNil {
			c.Class("background-build")
		}

		if b.err != nil {
			c.Class("build-failed")
		}
	}

	maxBuilds := 0
	for _, n := range perKey {
		if n > maxBuilds {
			maxBuilds = n
		}
	}

	switch {
	case maxBuilds >= 3:
		c.Class("builds-per-key>=3")
	case maxBuilds == 2:
		c.Class("builds-per-key=2")
	case maxBuilds == 1:
		c.Class("builds-per-key=1")
	default:
		c.Class("builds-per-key=0")
	}

	if waiters > 0 {
		c.Class("waiter-seen(log)")
	}

	if maxBuilds >= 2 || c.classes["step-while-build-in-flight"] {
		c.NonTrivial()
	}

	c.Class(fmt.Sprintf("gets=%d", len(sc.gets)))
}

const c01SweepRule = "small-scope EXHAUSTIVE sweep at call-out granularity: 2 Gets on 1 key, every interleaving of their call-outs and of the second Get's arrival (resume/start choices only; no clock jumps, no external ops, no faults, logger and stats off) " +
	"for every combination of 5 variants x SyncUpdate x SyncRead x FailHard x MaxStaleness {0,30s} x FailedUpdateTTL {default,-1} x initial state {absent, fresh, stale-recent, stale-old} x builder outcomes {ok,err}^2; oracle: C01 in-flight monitor + C02 provenance + C04 quiescence + C05 single build under SyncRead; " +
	"a case = one complete schedule; non-trivial = the second Get started before the first returned"

type sweepCombo struct {
	variant, syncUpdate, syncRead, failHard, ms, nofail, state, fail0, fail1 int
}

var sweepCombos = func() []sweepCombo {
	var out []sweepCombo

	for v := 0; v < nVariants; v++ {
		for su := 0; su < 2; su++ {
			for sr := 0; sr < 2; sr++ {
				for fh := 0; fh < 2; fh++ {
					for ms := 0; ms < 2; ms++ {
						for nf := 0; nf < 2; nf++ {
							for st := 0; st < 4; st++ {
								if st == ksStaleOld && ms == 0 {
									continue
								}

								for f0 := 0; f0 < 2; f0++ {
									for f1 := 0; f1 < 2; f1++ {
										out = append(out, sweepCombo{v, su, sr, fh, ms, nf, st, f0, f1})
									}
								}
							}
						}
					}
				}
			}
		}
	}

	return out
}()

// TestC01Sweep enumerates all schedules of two Gets on one key for every configuration combination.
func TestC01Sweep(t *testing.T) {
	if os.Getenv("VERIF_REPLAY") != "" {
		runCheck(t, "C01", "C01Sweep", c01SweepRule, propSweep)

		return
	}

	shard, shards := envInt("VERIF_SHARD", 0), envInt("VERIF_SHARDS", 1)
	limit := envInt("VERIF_SWEEP_LIMIT", 0) // combos per process (quick tier samples the table)
	done, allExhausted, total := 0, true, 0
	seed := envInt("VERIF_SEED_DERIVED", 1)

	for i := range sweepCombos {
		// deterministic pseudo-random assignment of combos to shards / the quick sample
		if (i*2654435761+seed)%shards != shard {
			continue
		}

		if limit > 0 && done >= limit {
			allExhausted = false

			break
		}

		n, ex := runEnumPrefix(t, "C01", "C01Sweep", c01SweepRule, []int{i}, 0, 200000, propSweep)
		total += n
		allExhausted = allExhausted && ex
		done++

		if t.Failed() {
			return
		}
	}

	st := statsFor("C01", "C01Sweep", c01SweepRule)
	st.mu.Lock()
	st.Extra["combos_total"] = len(sweepCombos)
	st.Extra["combos_swept_exhaustively"] += done
	st.Extra["schedules"] += total
	st.Exhaustive = allExhausted && limit == 0
	st.mu.Unlock()
}

func propSweep(c *Case) {
	cb := sweepCombos[c.Pick("combo", len(sweepCombos))]
	cfg := foCfg{
		variant: cb.variant, syncUpdate: cb.syncUpdate == 1, syncRead: cb.syncRead == 1, failHard: cb.failHard == 1,
		backendTTL: time.Hour, logger: 0, stats: false,
	}

	if cb.ms == 1 {
		cfg.maxStaleness = 30 * time.Second
	}

	if cb.nofail == 1 {
		cfg.failedUpdateTTL = -1
	}

	age := time.Duration(0)

	switch cb.state {
	case ksStaleRecent:
		age = time.Second
	case ksStaleOld:
		age = time.Minute
	}

	sc := &scenario{cfg: cfg, nkeys: 1, states: []int{cb.state}, ages: []time.Duration{age}, prefail: []bool{false}}
	sc.gets = []*getSpec{
		{idx: 0, key: scenKeys[0], buildFails: cb.fail0 == 1},
		{idx: 1, key: scenKeys[0], buildFails: cb.fail1 == 1},
	}

	c.Class(fmt.Sprintf("state=%s", ksNames[cb.state]))
	c.Tracef("combo %+v", cb)

	c.Bubble(func() {
		w := newWorld(c, cfg)
		w.prepare(sc)

		complete := w.runSchedule(sc.gets, ctlOpts{})
		w.reportProblems()
		w.checkProvenance()
		w.checkQuiescence(sc, complete)

		c.Assert(complete, "step-budget", "schedule of two Gets did not finish within the step budget")

		// C05 (build economy) in the same small scope: with SyncRead a successful build, or a failed
		// one whose error is cached, is never followed by a second builder invocation.
		if cfg.syncRead {
			var builds []*buildRec

			for _, b := range w.log.builds {
				if b.getIdx >= 0 {
					builds = append(builds, b)
				}
			}

			if len(builds) > 0 && (builds[0].err == nil || cfg.failedUpdateTTL != -1) {
				c.Assert(len(builds) == 1, "redundant-build", "SyncRead, two Gets on one key: %d builder invocations although the first one %s", len(builds),
					map[bool]string{true: "succeeded", false: "failed and its error is cached"}[builds[0].err == nil])
			}
		}

		if len(w.log.gets) == 2 && w.log.gets[1].startStep < w.log.gets[0].returnStep {
			c.NonTrivial()
		}
	})
}
