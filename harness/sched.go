package harness

import (
	"bytes"
	"context"
	"errors"
	"fmt"
	"runtime"
	"sort"
	"strconv"
	"sync"
	"sync/atomic"
	"testing/synctest"
	"time"

	"github.com/bool64/cache"
)

// ---------------------------------------------------------------------------------------------
// Call-out scheduler (DESIGN §4.2): every call-out of the frontend into harness code is a yield
// point where the calling goroutine parks on a bubble channel; the controller picks who runs.

type taskKey struct{}

type userKey struct{}

// scopeKey holds a request-scope object of the caller that itself implements context.Context
// (like the request contexts of web frameworks): a value like any other.
type scopeKey struct{}

type requestScope struct {
	context.Context
	id int
}

type resumeMsg struct {
	fault error // non-nil: the pending backend call must fail with this error
}

type parkRec struct {
	task     *task
	point    string
	key      string
	canFault bool
	ch       chan resumeMsg
}

type task struct {
	id     int
	name   string
	bg     bool
	parent *task
	get    *getSpec
	nbg    int
}

type sched struct {
	c       *Case
	mu      sync.Mutex
	tasks   []*task
	byGID   map[int64]*task
	parked  []*parkRec
	aborted atomic.Bool
	step    int
	log     *runLog
}

func curGoID() int64 {
	var buf [64]byte

	n := runtime.Stack(buf[:], false)
	// "goroutine 123 ["
	s := buf[len("goroutine "):n]
	i := bytes.IndexByte(s, ' ')
	id, _ := strconv.ParseInt(string(s[:i]), 10, 64)

	return id
}

func newSched(c *Case, log *runLog) *sched {
	s := &sched{c: c, byGID: map[int64]*task{}, log: log}
	c.OnClose(0, s.abort)

	return s
}

// abort releases every parked goroutine; later call-outs do not park any more.
func (s *sched) abort() {
	s.aborted.Store(true)
	s.mu.Lock()
	ps := s.parked
	s.parked = nil
	s.mu.Unlock()

	for _, p := range ps {
		close(p.ch)
	}
}

// current returns the task of the calling goroutine. A goroutine that is not registered but
// carries a task id in its context is a goroutine the library spawned for that task.
func (s *sched) current(ctx context.Context) *task {
	// fast path for checks that run without scheduler tasks (finding the goroutine id is expensive)
	s.mu.Lock()
	idle := len(s.byGID) == 0 && len(s.tasks) == 0
	s.mu.Unlock()

	if idle {
		return nil
	}

	gid := curGoID()

	s.mu.Lock()
	defer s.mu.Unlock()

	if t := s.byGID[gid]; t != nil {
		return t
	}

	id, ok := ctx.Value(taskKey{}).(int)
	if !ok || id >= len(s.tasks) {
		return nil
	}

	parent := s.tasks[id]
	parent.nbg++
	t := &task{id: id, name: fmt.Sprintf("%s.bg%d", parent.name, parent.nbg), bg: true, parent: parent, get: parent.get}
	s.byGID[gid] = t

	return t
}

// yield parks the calling task at a named point until the controller resumes it.
func (s *sched) yield(ctx context.Context, point string, key []byte, canFault bool) resumeMsg {
	if s.aborted.Load() {
		return resumeMsg{}
	}

	t := s.current(ctx)
	if t == nil {
		return resumeMsg{}
	}

	p := &parkRec{task: t, point: point, key: string(key), canFault: canFault, ch: make(chan resumeMsg)}

	s.mu.Lock()
	if s.aborted.Load() {
		s.mu.Unlock()

		return resumeMsg{}
	}

	s.parked = append(s.parked, p)
	s.mu.Unlock()

	return <-p.ch
}

func (s *sched) taskName(ctx context.Context) string {
	if t := s.current(ctx); t != nil {
		return t.name
	}

	return "-"
}

// parkedSorted returns the parked records in a deterministic order.
func (s *sched) parkedSorted() []*parkRec {
	s.mu.Lock()
	defer s.mu.Unlock()

	ps := append([]*parkRec{}, s.parked...)
	sort.Slice(ps, func(i, j int) bool { return ps[i].task.name < ps[j].task.name })

	return ps
}

func (s *sched) resume(p *parkRec, msg resumeMsg) {
	s.mu.Lock()
	for i, q := range s.parked {
		if q == p {
			s.parked = append(s.parked[:i], s.parked[i+1:]...)

			break
		}
	}
	s.mu.Unlock()

	p.ch <- msg
}

// ---------------------------------------------------------------------------------------------
// Run log: everything the oracles need, recorded by the wrappers.

type buildRec struct {
	key       string
	task      string
	getIdx    int
	n         int
	enterStep int
	exitStep  int // -1 while running
	tok       string
	err       error
	overlap   bool
	// context observations at builder entry
	ctxTTL      time.Duration
	ctxDoneNil  bool
	ctxErr      error
	hasDeadline bool
	userVal     interface{}
	scopeVal    interface{} // ctx.Value(scopeKey{}): a caller value whose dynamic type implements context.Context
	skipRead    bool
	detachedBG  bool
	ttlAfter    time.Duration
}

type beRec struct {
	op      string // "read" | "write"
	key     string
	task    string
	step    int
	at      time.Time
	ttl     time.Duration
	skip    bool
	val     interface{}
	err     error
	fault   bool
	expired bool
}

type getRec struct {
	idx        int
	task       string
	key        string
	startStep  int
	returnStep int
	done       bool
	val        interface{}
	err        error
	ttlAfter   time.Duration
	returnedAt time.Time
	// number of builds of this key that had exited when the Get returned
	buildsExitedAtReturn int
}

type runLog struct {
	mu       sync.Mutex
	builds   []*buildRec
	be       []*beRec
	gets     []*getRec
	inflight map[string]int
	stored   map[string]map[string]bool // key -> tokens ever stored under it
	berrs    map[string][]error         // key -> injected backend errors
	callouts map[string]int
	resumes  map[string][]int // task -> steps at which the controller resumed it
	problems []string         // violations noticed on task goroutines (reported by the controller)
}

func newRunLog() *runLog {
	return &runLog{inflight: map[string]int{}, stored: map[string]map[string]bool{}, berrs: map[string][]error{}, callouts: map[string]int{}, resumes: map[string][]int{}}
}

func (l *runLog) noteStored(key string, val interface{}) {
	if s, ok := val.(string); ok && s != "" {
		if l.stored[key] == nil {
			l.stored[key] = map[string]bool{}
		}

		l.stored[key][s] = true
	}
}

// ---------------------------------------------------------------------------------------------
// Errors and tokens.

type buildErr struct {
	key   string
	task  string
	n     int
	cause error
}

// Unwrap exposes a generated cause (context or cache sentinel errors a real builder may return).
func (e *buildErr) Unwrap() error { return e.cause }

func (e *buildErr) Error() string {
	return fmt.Sprintf("builderr:%s#%d@%s", e.task, e.n, keyName([]byte(e.key)))
}

type injectedErr struct {
	op   string
	key  string
	step int
}

func (e *injectedErr) Error() string {
	return fmt.Sprintf("injected-%s-error@%s(step %d)", e.op, keyName([]byte(e.key)), e.step)
}

func tokenFor(key []byte, task string, n int) string {
	return fmt.Sprintf("tok:%s#%d@%x", task, n, key)
}

// tokenKey extracts the key a token was produced for ("" if v is not a token).
func tokenKey(v interface{}) (string, bool) {
	s, ok := v.(string)
	if !ok {
		return "", false
	}

	i := bytes.LastIndexByte([]byte(s), '@')
	if i < 0 || len(s) < 4 || (s[:4] != "tok:" && s[:4] != "ini:") {
		return "", false
	}

	var k []byte

	_, err := fmt.Sscanf(s[i+1:], "%x", &k)
	if err != nil && s[i+1:] != "" {
		return "", false
	}

	return string(k), true
}

// ---------------------------------------------------------------------------------------------
// Backend wrapper (yield point + fault injection + log).

type beWrap struct {
	s    *sched
	be   Backend
	real cache.ReadWriter
	// faultAtCall >= 0 makes the n-th wrapper call (0-based, Reads and Writes counted together)
	// fail with a unique injected error (single-fault enumeration).
	faultAtCall int
	calls       int
}

// nextCallFault returns the injected error for this call if it is the enumerated fault position.
func (w *beWrap) nextCallFault(op string, key []byte) error {
	w.s.log.mu.Lock()
	defer w.s.log.mu.Unlock()

	n := w.calls
	w.calls++

	if n != w.faultAtCall {
		return nil
	}

	ie := &injectedErr{op: op, key: string(key), step: w.s.step}
	w.s.log.berrs[string(key)] = append(w.s.log.berrs[string(key)], ie)

	return ie
}

func (w *beWrap) Read(ctx context.Context, key []byte) (interface{}, error) {
	v, err := w.readCommon(ctx, key, func() (interface{}, error) { return w.real.Read(ctx, key) })

	return v, err
}

func (w *beWrap) readCommon(ctx context.Context, key []byte, do func() (interface{}, error)) (interface{}, error) {
	msg := w.s.yield(ctx, "be.Read", key, true)
	if f := w.nextCallFault("read", key); f != nil && msg.fault == nil {
		msg.fault = f
	}

	rec := &beRec{op: "read", key: string(key), task: w.s.taskName(ctx), step: w.s.step, at: time.Now(), ttl: cache.TTL(ctx), skip: cache.SkipRead(ctx)}

	var (
		v   interface{}
		err error
	)

	if msg.fault != nil {
		rec.fault = true
		err = msg.fault
	} else {
		v, err = do()
	}

	rec.val, rec.err = unbox(v), err
	rec.expired = err != nil && errors.Is(err, cache.ErrExpired)

	w.s.log.mu.Lock()
	w.s.log.be = append(w.s.log.be, rec)
	w.s.log.mu.Unlock()

	// Second yield point: the call has taken effect but the frontend has not resumed yet
	// (makes "read before, lock after somebody else's whole build" reachable).
	w.s.yield(ctx, "be.Read.ret", key, false)

	return v, err
}

func (w *beWrap) Write(ctx context.Context, key []byte, v interface{}) error {
	return w.writeCommon(ctx, key, v, func() error { return w.real.Write(ctx, key, v) })
}

func (w *beWrap) writeCommon(ctx context.Context, key []byte, v interface{}, do func() error) error {
	msg := w.s.yield(ctx, "be.Write", key, true)
	if f := w.nextCallFault("write", key); f != nil && msg.fault == nil {
		msg.fault = f
	}

	rec := &beRec{op: "write", key: string(key), task: w.s.taskName(ctx), step: w.s.step, at: time.Now(), ttl: cache.TTL(ctx), skip: cache.SkipRead(ctx), val: unbox(v)}

	if msg.fault != nil {
		rec.fault = true
		rec.err = msg.fault
	} else {
		rec.err = do()
	}

	w.s.log.mu.Lock()
	w.s.log.be = append(w.s.log.be, rec)

	if rec.err == nil {
		w.s.log.noteStored(string(key), unbox(v))
	}
	w.s.log.mu.Unlock()

	w.s.yield(ctx, "be.Write.ret", key, false)

	return rec.err
}

type beWrapOf struct {
	w    *beWrap
	real *cache.ShardedMapOf[string]
}

func (g *beWrapOf) Read(ctx context.Context, key []byte) (string, error) {
	v, err := g.w.readCommon(ctx, key, func() (interface{}, error) {
		s, err := g.real.Read(ctx, key)

		return s, err
	})

	return gstr(v), err
}

func (g *beWrapOf) Write(ctx context.Context, key []byte, v string) error {
	return g.w.writeCommon(ctx, key, v, func() error { return g.real.Write(ctx, key, v) })
}

// ---------------------------------------------------------------------------------------------
// Logger and stats call-outs. Rule R1: call-outs that can be made while a shard lock is held
// ("wrote to cache"/"deleted cache entry", cache_write/cache_delete) never park.

var yieldingMessages = map[string]bool{
	"waiting for cache value":                    true,
	"refreshing expired value":                   true,
	"building cache value":                       true,
	"failed to update stale cache value":         true,
	"failed to update cache value in background": true,
	"failed to cache update failure":             true,
}

var yieldingMetrics = map[string]bool{
	cache.MetricRefreshed: true, cache.MetricBuild: true, cache.MetricFailed: true, cache.MetricChanged: true,
}

type errLogger struct{ s *sched }

func (l errLogger) Error(ctx context.Context, msg string, _ ...interface{}) {
	l.s.logCallout(ctx, "error", msg)
}

type fullLogger struct{ errLogger }

func (l fullLogger) Debug(ctx context.Context, msg string, _ ...interface{}) {
	l.s.logCallout(ctx, "debug", msg)
}
func (l fullLogger) Warn(ctx context.Context, msg string, _ ...interface{}) {
	l.s.logCallout(ctx, "warn", msg)
}
func (l fullLogger) Important(ctx context.Context, msg string, _ ...interface{}) {
	l.s.logCallout(ctx, "important", msg)
}

func (s *sched) logCallout(ctx context.Context, level, msg string) {
	s.log.mu.Lock()
	s.log.callouts["log:"+msg]++
	s.log.mu.Unlock()

	if yieldingMessages[msg] {
		s.yield(ctx, "log:"+msg, nil, false)
	}
}

type schedTracker struct {
	s  *sched
	ct *countTracker
}

func (t schedTracker) Add(ctx context.Context, name string, inc float64, lv ...string) {
	t.ct.Add(ctx, name, inc, lv...)

	if yieldingMetrics[name] {
		t.s.yield(ctx, "stat:"+name, nil, false)
	}
}

func (t schedTracker) Set(ctx context.Context, name string, v float64, lv ...string) {
	t.ct.Set(ctx, name, v, lv...)
}

// ---------------------------------------------------------------------------------------------
// Frontend adapter over Failover and FailoverOf[string].

type frontend interface {
	Get(ctx context.Context, key []byte, build func(ctx context.Context) (string, error)) (interface{}, error)
	KeyLocks() int
	HasErrors() bool
	WriteFailure(ctx context.Context, key []byte, err error)
	ClearFailures()
	FailureCached(key []byte) (error, bool)
	Close()
}

// boxedVal is what the interface{} frontends cache when foCfg.boxVals is set: the token inside a
// slice, a dynamic type that cannot be compared with == (values are opaque to a cache).
type boxedVal []string

func init() { cache.GobRegister(boxedVal{}) }

func box(v interface{}) interface{} {
	if s, ok := v.(string); ok {
		return boxedVal{s}
	}

	return v
}

func unbox(v interface{}) interface{} {
	if b, ok := v.(boxedVal); ok && len(b) == 1 {
		return b[0]
	}

	return v
}

type foPlain struct {
	f   *cache.Failover
	box bool
}

func (p foPlain) Get(ctx context.Context, key []byte, build func(ctx context.Context) (string, error)) (interface{}, error) {
	v, err := p.f.Get(ctx, key, func(ctx context.Context) (interface{}, error) {
		v, err := build(ctx)
		if err != nil {
			return nil, err
		}

		if p.box {
			return box(v), nil
		}

		return v, nil
	})

	return unbox(v), err
}
func (p foPlain) KeyLocks() int   { return p.f.VerifKeyLocks() }
func (p foPlain) HasErrors() bool { return p.f.Errors != nil }
func (p foPlain) WriteFailure(ctx context.Context, key []byte, err error) {
	_ = p.f.Errors.Write(ctx, key, err)
}
func (p foPlain) ClearFailures() {
	if p.f.Errors != nil {
		p.f.Errors.DeleteAll(bg)
	}
}

func (p foPlain) FailureCached(key []byte) (error, bool) {
	if p.f.Errors == nil {
		return nil, false
	}

	v, err := p.f.Errors.Read(bg, key)
	if err != nil {
		return nil, false
	}

	e, _ := v.(error)

	return e, true
}
func (p foPlain) Close() { p.f.VerifClose() }

type foOf struct{ f *cache.FailoverOf[string] }

func (p foOf) Get(ctx context.Context, key []byte, build func(ctx context.Context) (string, error)) (interface{}, error) {
	v, err := p.f.Get(ctx, key, build)

	return v, err
}
func (p foOf) KeyLocks() int   { return p.f.VerifKeyLocks() }
func (p foOf) HasErrors() bool { return p.f.Errors != nil }
func (p foOf) WriteFailure(ctx context.Context, key []byte, err error) {
	_ = p.f.Errors.Write(ctx, key, err)
}
func (p foOf) ClearFailures() {
	if p.f.Errors != nil {
		p.f.Errors.DeleteAll(bg)
	}
}

func (p foOf) FailureCached(key []byte) (error, bool) {
	if p.f.Errors == nil {
		return nil, false
	}

	v, err := p.f.Errors.Read(bg, key)
	if err != nil {
		return nil, false
	}

	return v, true
}
func (p foOf) Close() { p.f.VerifClose() }

type foOfAny struct {
	f   *cache.FailoverOf[any]
	box bool
}

func (p foOfAny) Get(ctx context.Context, key []byte, build func(ctx context.Context) (string, error)) (interface{}, error) {
	v, err := p.f.Get(ctx, key, func(ctx context.Context) (any, error) {
		v, err := build(ctx)
		if err != nil {
			return nil, err
		}

		if p.box {
			return box(v), nil
		}

		return v, nil
	})

	return unbox(v), err
}
func (p foOfAny) KeyLocks() int   { return p.f.VerifKeyLocks() }
func (p foOfAny) HasErrors() bool { return p.f.Errors != nil }
func (p foOfAny) WriteFailure(ctx context.Context, key []byte, err error) {
	_ = p.f.Errors.Write(ctx, key, err)
}
func (p foOfAny) ClearFailures() {
	if p.f.Errors != nil {
		p.f.Errors.DeleteAll(bg)
	}
}

func (p foOfAny) FailureCached(key []byte) (error, bool) {
	if p.f.Errors == nil {
		return nil, false
	}

	v, err := p.f.Errors.Read(bg, key)
	if err != nil {
		return nil, false
	}

	return v, true
}
func (p foOfAny) Close() { p.f.VerifClose() }

// foCfg is the generated Failover configuration.
type foCfg struct {
	variant         int // index into variantNames
	syncUpdate      bool
	syncRead        bool
	failHard        bool
	maxStaleness    time.Duration
	failedUpdateTTL time.Duration
	updateTTL       time.Duration
	logger          int // 0 nil, 1 error-only, 2 full
	stats           bool
	observeMut      bool
	boxVals         bool          // interface{} frontends cache the tokens inside a slice (uncomparable dynamic type)
	noiseBackendCfg bool          // a BackendConfig is passed next to Backend (documented to apply only without a Backend)
	noopBackend     bool          // the frontend sits on cache.NoOp (nothing is ever stored); only checks whose oracle does not look at the backend use it
	directNoOp      bool          // with noopBackend: hand cache.NoOp{} to the frontend itself, not wrapped (no yield points at backend calls)
	siblingFailover bool          // a second Failover with the same Name (own backend) has failed builds of the same keys cached
	backendDEA      time.Duration // DeleteExpiredAfter of the real backend (0 = out of reach); its janitor never runs
	backendTTL      time.Duration
}

var variantNames = []string{
	"Failover/ShardedMap", "Failover/SyncMap", "FailoverOf/ShardedMapOf",
	// the non-generic backends also satisfy ReadWriterOf[any]; they report expiry with the non-generic error type
	"FailoverOf[any]/ShardedMap", "FailoverOf[any]/SyncMap",
}

var variantKinds = []string{kindSharded, kindSync, kindShardedOf, kindSharded, kindSync}

const nVariants = 5

func (f foCfg) String() string {
	return fmt.Sprintf("%s SyncUpdate=%v SyncRead=%v FailHard=%v MaxStaleness=%v FailedUpdateTTL=%v UpdateTTL=%v logger=%d stats=%v ObserveMutability=%v backendTTL=%v",
		variantNames[f.variant], f.syncUpdate, f.syncRead, f.failHard, f.maxStaleness, f.failedUpdateTTL, f.updateTTL, f.logger, f.stats, f.observeMut, f.backendTTL)
}

func (f foCfg) effUpdateTTL() time.Duration {
	if f.updateTTL == 0 {
		return time.Minute
	}

	return f.updateTTL
}

func (f foCfg) effFailedTTL() time.Duration {
	if f.failedUpdateTTL == 0 {
		return 20 * time.Second
	}

	return f.failedUpdateTTL
}

// world is one Failover instance with its wrapped real backend, scheduler and log.
type world struct {
	c           *Case
	cfg         foCfg
	s           *sched
	log         *runLog
	be          Backend
	fe          frontend
	ct          *countTracker
	name        string
	wrap        *beWrap
	faultAtCall int
	lossy       bool
	// model-side counts of direct operations on the real backend (C18)
	extDeleted, extExpired, prepWrites, prefailWrites int
	extExpiredSlack                                   int // entries already expired when an external ExpireAll ran
	extWrites                                         int // external writes of neighbour keys (ctlOpts.extCleanup)
	foreignErr                                        map[bool]error
	side                                              Backend  // another cache of the library that builders write by-products to
	sideKeys                                          []string // keys written there (guarded by log.mu)
}

func newWorld(c *Case, cfg foCfg) *world {
	w := &world{c: c, cfg: cfg, log: newRunLog(), ct: newCountTracker(), name: "fo", faultAtCall: -1}
	w.s = newSched(c, w.log)

	kind := variantKinds[cfg.variant]
	var realStats cache.StatsTracker
	if cfg.stats {
		realStats = w.ct
	}

	dea := farFuture
	if cfg.backendDEA != 0 {
		dea = cfg.backendDEA
		c.Class("backend-DeleteExpiredAfter=short")
	}

	w.be = newCaseBackend(c, kind, cache.Config{
		Name: "real", Stats: realStats, TimeToLive: cfg.backendTTL, ExpirationJitter: -1,
		DeleteExpiredJobInterval: farFuture, DeleteExpiredAfter: dea, ItemsCountReportInterval: farFuture,
	})

	if cfg.boxVals && cfg.variant != 2 {
		w.be = boxBE{w.be}
		c.Class("values=boxed-in-slice")
	} else {
		w.cfg.boxVals = false
	}

	return w
}

// boxBE is the harness' own view of a backend holding boxed values: it boxes what it writes and
// unboxes what it reads, so that oracles keep talking about tokens.
type boxBE struct{ Backend }

func (b boxBE) Read(ctx context.Context, key []byte) readResult {
	r := b.Backend.Read(ctx, key)
	r.Val, r.ExpVal = unbox(r.Val), unbox(r.ExpVal)

	return r
}

func (b boxBE) Write(ctx context.Context, key []byte, val interface{}) error {
	return b.Backend.Write(ctx, key, box(val))
}

func (b boxBE) Walk(fn func(key []byte, val interface{}, exp time.Time) error) (int, error) {
	return b.Backend.Walk(func(key []byte, val interface{}, exp time.Time) error { return fn(key, unbox(val), exp) })
}

func (b boxBE) Load(key []byte) (interface{}, bool) {
	v, ok := b.Backend.Load(key)

	return unbox(v), ok
}

func (b boxBE) Store(key []byte, val interface{}) { b.Backend.Store(key, box(val)) }

// attach creates the frontend. It is separate from newWorld so that the (possibly long) clock
// advance preparing stale entries happens before the failure cache's one-minute janitor exists.
func (w *world) attach() {
	c, cfg := w.c, w.cfg

	var logger cache.Logger

	switch cfg.logger {
	case 1:
		logger = errLogger{w.s}
	case 2:
		logger = fullLogger{errLogger{w.s}}
	}

	var stats cache.StatsTracker
	if cfg.stats {
		stats = schedTracker{s: w.s, ct: w.ct}
	}

	wrap := &beWrap{s: w.s, be: w.be, faultAtCall: w.faultAtCall}
	w.wrap = wrap

	// "BackendConfig is a configuration for ShardedMap cache instance if Backend is not provided":
	// next to a Backend it configures nothing, whatever it says.
	var noise cache.Config
	if cfg.noiseBackendCfg {
		noise = cache.Config{
			TimeToLive: time.Nanosecond, ExpirationJitter: 1, CountSoftLimit: 1, EvictFraction: 0.9,
			DeleteExpiredJobInterval: time.Second, DeleteExpiredAfter: time.Nanosecond,
		}

		c.Class("BackendConfig-next-to-Backend")
	}

	if cfg.siblingFailover {
		// failures of another instance with the same name are that instance's business
		sib := cache.NewFailover(cache.FailoverConfig{Name: w.name, FailedUpdateTTL: cfg.failedUpdateTTL, UpdateTTL: cfg.updateTTL, MaxStaleness: cfg.maxStaleness}.Use)
		c.OnClose(1, sib.VerifClose)

		for _, k := range [][]byte{[]byte("k1"), []byte("k2"), []byte("k3"), []byte("many-0000"), []byte("many-0001")} {
			_, _ = sib.Get(bg, k, func(context.Context) (interface{}, error) { return nil, errors.New("failure of the sibling instance") })
		}

		c.Class("sibling-failover-with-the-same-name")
	}

	var direct cache.ReadWriter = wrap
	if cfg.noopBackend && cfg.directNoOp {
		direct = cache.NoOp{}
	}

	if cfg.variant >= 3 {
		wrap.real = w.be.Raw().(cache.ReadWriter)
		if cfg.noopBackend {
			wrap.real = cache.NoOp{}
			c.Class("backend=NoOp")
		}

		f := cache.NewFailoverOf[any](cache.FailoverConfigOf[any]{
			Name: w.name, Backend: direct, BackendConfig: noise,
			FailedUpdateTTL: cfg.failedUpdateTTL, UpdateTTL: cfg.updateTTL, SyncUpdate: cfg.syncUpdate, SyncRead: cfg.syncRead,
			MaxStaleness: cfg.maxStaleness, FailHard: cfg.failHard, Logger: logger, Stats: stats, ObserveMutability: cfg.observeMut,
		}.Use)
		w.fe = foOfAny{f, cfg.boxVals}
	} else if cfg.variant == 2 {
		real := w.be.Raw().(*cache.ShardedMapOf[string])
		f := cache.NewFailoverOf[string](cache.FailoverConfigOf[string]{
			Name: w.name, Backend: &beWrapOf{w: wrap, real: real}, BackendConfig: noise,
			FailedUpdateTTL: cfg.failedUpdateTTL, UpdateTTL: cfg.updateTTL, SyncUpdate: cfg.syncUpdate, SyncRead: cfg.syncRead,
			MaxStaleness: cfg.maxStaleness, FailHard: cfg.failHard, Logger: logger, Stats: stats, ObserveMutability: cfg.observeMut,
		}.Use)
		w.fe = foOf{f}
	} else {
		wrap.real = w.be.Raw().(cache.ReadWriter)
		if cfg.noopBackend {
			wrap.real = cache.NoOp{}
			c.Class("backend=NoOp")
		}

		f := cache.NewFailover(cache.FailoverConfig{
			Name: w.name, Backend: direct, BackendConfig: noise,
			FailedUpdateTTL: cfg.failedUpdateTTL, UpdateTTL: cfg.updateTTL, SyncUpdate: cfg.syncUpdate, SyncRead: cfg.syncRead,
			MaxStaleness: cfg.maxStaleness, FailHard: cfg.failHard, Logger: logger, Stats: stats, ObserveMutability: cfg.observeMut,
		}.Use)
		w.fe = foPlain{f, cfg.boxVals}
	}

	c.OnClose(1, w.fe.Close)
}

// ---------------------------------------------------------------------------------------------
// Gets and builders.

type getSpec struct {
	idx      int
	key      []byte
	ttl      time.Duration // 0 = no TTL cell
	ttlCell  bool          // WithTTL(ctx, ttl, false) applied even when ttl == 0
	skipRead bool
	// builder script: outcome of the invocation made for this Get (a Get builds at most once)
	buildFails bool
	errKind    int             // 0 plain, 1 wraps context.Canceled, 2 wraps context.DeadlineExceeded, 3 wraps cache.ErrNotFound, 4 wraps cache.ErrExpired, 5/6 wraps the expiry error (with item) another cache returned
	builderTTL []time.Duration // WithTTL(ctx, t, true) calls made by the builder
	nestedKey  []byte          // the builder itself calls Get for this (other, "later") key of the same frontend with its own context
	sideWrite  bool            // the builder writes a key of its own to ANOTHER cache of the library with the context it was given, then reuses its key buffer
	// post-return caller actions
	poison       int // 0 = 0xAA fill, 1 = overwrite with otherKey, 2 = leave
	otherKey     []byte
	cancel       bool
	cancelBefore bool // cancel the context before calling Get (C06)
	deadline     bool // caller context carries a deadline

	buf      []byte
	ctx      context.Context
	cancelFn context.CancelFunc
}

func (w *world) builderFor(g *getSpec, t *task) func(ctx context.Context) (string, error) {
	return func(ctx context.Context) (string, error) {
		l := w.log
		key := string(g.key)
		tn := w.s.taskName(ctx)

		l.mu.Lock()
		n := len(l.builds) + 1
		rec := &buildRec{
			key: key, task: tn, getIdx: g.idx, n: n, enterStep: w.s.step, exitStep: -1,
			ctxTTL: cache.TTL(ctx), ctxDoneNil: ctx.Done() == nil, ctxErr: ctx.Err(),
			userVal: ctx.Value(userKey{}), scopeVal: ctx.Value(scopeKey{}), skipRead: cache.SkipRead(ctx),
		}
		_, rec.hasDeadline = ctx.Deadline()
		l.inflight[key]++

		if l.inflight[key] > 1 {
			rec.overlap = true
			l.problems = append(l.problems, fmt.Sprintf("overlap: builder for key %s entered by %s while another build of the key is in flight", keyName(g.key), tn))
		}

		l.builds = append(l.builds, rec)
		l.mu.Unlock()

		w.s.yield(ctx, "build", g.key, false)

		for _, bt := range g.builderTTL {
			cache.WithTTL(ctx, bt, true)
		}

		// a builder may store by-products in another cache of the library, under the context it was given,
		// building its keys in a buffer that it rewrites afterwards
		if g.sideWrite && w.side != nil {
			sk := fmt.Sprintf("side:%x:%d", g.key, n)
			buf := []byte(sk)
			_ = w.side.Write(ctx, buf, "by-product")

			for j := range buf {
				buf[j] = 0xEE
			}

			l.mu.Lock()
			w.sideKeys = append(w.sideKeys, sk)
			l.mu.Unlock()
		}

		// a builder may depend on another cached value of the same frontend (dependencies are acyclic)
		if g.nestedKey != nil {
			ng := &getSpec{idx: -2, key: g.nestedKey}
			_, _ = w.fe.Get(ctx, append([]byte{}, g.nestedKey...), w.builderFor(ng, t))
		}

		l.mu.Lock()
		rec.ttlAfter = cache.TTL(ctx)
		rec.ctxErr = ctx.Err()
		rec.exitStep = w.s.step
		l.inflight[key]--

		var (
			tok string
			err error
		)

		if g.buildFails {
			be := &buildErr{key: key, task: tn, n: n}

			switch g.errKind {
			case 1:
				be.cause = context.Canceled
			case 2:
				be.cause = context.DeadlineExceeded
			case 3:
				be.cause = cache.ErrNotFound
			case 4:
				be.cause = cache.ErrExpired
			case 5, 6:
				// the builder read another cache of this library and passes on what it got there:
				// an expiry error that carries an item (of that other cache, not of this key)
				be.cause = w.foreignExpired(g.errKind == 6)
			}

			rec.err = be
			err = rec.err
		} else {
			rec.tok = tokenFor(g.key, tn, n)
			tok = rec.tok
		}
		l.mu.Unlock()

		return tok, err
	}
}

// startGet launches the goroutine performing Get number i.
func (w *world) startGet(g *getSpec) {
	if g.buildFails && g.errKind >= 5 {
		w.foreignExpired(g.errKind == 6) // prepared on the controller goroutine, the builder only picks it up
	}

	if g.sideWrite && w.side == nil {
		w.side = newCaseBackend(w.c, variantKinds[w.cfg.variant], cache.Config{
			Name: "side", TimeToLive: time.Hour, ExpirationJitter: -1,
			DeleteExpiredJobInterval: farFuture, DeleteExpiredAfter: farFuture, ItemsCountReportInterval: farFuture,
		})
		w.c.Class("builder-writes-to-another-cache")
	}

	t := &task{id: g.idx, name: fmt.Sprintf("g%d", g.idx), get: g}
	rec := &getRec{idx: g.idx, task: t.name, key: string(g.key), startStep: w.s.step}

	w.s.mu.Lock()
	for len(w.s.tasks) <= g.idx {
		w.s.tasks = append(w.s.tasks, nil)
	}

	w.s.tasks[g.idx] = t
	w.s.mu.Unlock()

	w.log.mu.Lock()
	w.log.gets = append(w.log.gets, rec)
	w.log.mu.Unlock()

	ctx, cancel := context.WithCancel(context.Background())
	if g.deadline {
		var cancelDeadline context.CancelFunc

		ctx, cancelDeadline = context.WithDeadline(ctx, time.Now().Add(1000*time.Hour))
		w.c.OnClose(0, cancelDeadline)
	}

	ctx = context.WithValue(ctx, taskKey{}, g.idx)
	ctx = context.WithValue(ctx, userKey{}, fmt.Sprintf("user-%d", g.idx))
	ctx = context.WithValue(ctx, scopeKey{}, &requestScope{Context: context.Background(), id: g.idx})

	if g.ttl != 0 || g.ttlCell {
		ctx = cache.WithTTL(ctx, g.ttl, false)
	}

	if g.skipRead {
		ctx = cache.WithSkipRead(ctx)
	}

	g.ctx, g.cancelFn = ctx, cancel
	g.buf = append([]byte{}, g.key...)

	if g.cancelBefore {
		cancel()
	}

	started := make(chan struct{})

	go func() {
		w.s.mu.Lock()
		w.s.byGID[curGoID()] = t
		w.s.mu.Unlock()
		close(started)

		var (
			v   interface{}
			err error
		)

		func() {
			// a panic inside Get is a violation (Get must return), not a reason to lose the case
			defer func() {
				if r := recover(); r != nil {
					err = fmt.Errorf("PANIC in Get: %v", r)

					w.log.mu.Lock()
					w.log.problems = append(w.log.problems, fmt.Sprintf("get-panic: %s Get(%s) panicked: %v", t.name, keyName(g.key), r))
					w.log.mu.Unlock()
				}
			}()

			v, err = w.fe.Get(ctx, g.buf, w.builderFor(g, t))
		}()

		w.log.mu.Lock()
		rec.val, rec.err, rec.done = v, err, true
		rec.returnStep = w.s.step
		rec.returnedAt = time.Now()
		rec.ttlAfter = cache.TTL(ctx)

		for _, b := range w.log.builds {
			if b.key == rec.key && b.exitStep >= 0 {
				rec.buildsExitedAtReturn++
			}
		}
		w.log.mu.Unlock()

		w.s.yield(ctx, "returned", g.key, false)

		// Caller behaviour after return: reuse the key buffer, cancel the context.
		switch g.poison {
		case 0:
			for i := range g.buf {
				g.buf[i] = 0xAA
			}
		case 1:
			if len(g.otherKey) == len(g.buf) {
				copy(g.buf, g.otherKey)
			} else {
				for i := range g.buf {
					g.buf[i] = 0xAA
				}
			}
		}

		if g.cancel {
			cancel()
		}
	}()

	<-started
}

// ---------------------------------------------------------------------------------------------
// Controller.

var errWalkAborted = errors.New("walk aborted by the harness")

type ctlOpts struct {
	faults     int             // max injected backend faults
	clockSteps int             // max clock advances
	clockMenu  []time.Duration // durations to pick from
	external   int             // max external backend ops (ExpireAll / Delete)
	maxSteps   int
	afterStep  func() // invariant hook, runs on the controller goroutine after every step
	extCleanup bool   // external ops include "a cleanup cycle of the real backend, then writes of other keys into the shards of the scenario's keys"
}

// runSchedule starts the gets in order at generated points and schedules all call-outs until
// quiescence. It returns false when the step budget was exhausted (schedule cut short).
func (w *world) runSchedule(gets []*getSpec, o ctlOpts) bool {
	c := w.c
	s := w.s
	next := 0

	if o.maxSteps == 0 {
		o.maxSteps = 300
	}

	for s.step < o.maxSteps {
		synctest.Wait()
		s.step++ // written only while every task is durably blocked
		w.reportProblems()

		if o.afterStep != nil {
			o.afterStep()
		}

		parked := s.parkedSorted()

		type option struct {
			kind int // 0 resume, 1 resume with fault, 2 start, 3 clock, 4 external
			p    *parkRec
		}

		var opts []option

		for _, p := range parked {
			opts = append(opts, option{kind: 0, p: p})
		}

		if next < len(gets) {
			opts = append(opts, option{kind: 2})
		}

		for _, p := range parked {
			if p.canFault && o.faults > 0 {
				opts = append(opts, option{kind: 1, p: p})
			}
		}

		if o.clockSteps > 0 && len(o.clockMenu) > 0 && next > 0 && (len(parked) > 0 || next < len(gets)) {
			opts = append(opts, option{kind: 3})
		}

		if o.external > 0 && next > 0 && (len(parked) > 0 || next < len(gets)) {
			opts = append(opts, option{kind: 4})
		}

		if len(opts) == 0 {
			return true
		}

		op := opts[c.Pick("sched", len(opts))]

		if op.kind <= 2 {
			k := ""
			if op.p != nil && op.p.task.get != nil {
				k = string(op.p.task.get.key)
			} else if op.kind == 2 {
				k = string(gets[next].key)
			}

			w.log.mu.Lock()
			if w.log.inflight[k] > 0 && (op.p == nil || op.p.point != "build") {
				c.Class("step-while-build-in-flight")
			}
			w.log.mu.Unlock()
		}

		if op.p != nil {
			w.log.mu.Lock()
			w.log.resumes[op.p.task.name] = append(w.log.resumes[op.p.task.name], s.step)
			w.log.mu.Unlock()
		}

		switch op.kind {
		case 0:
			c.Tracef("[%d] resume %s @ %s %s", s.step, op.p.task.name, op.p.point, keyName([]byte(op.p.key)))
			s.resume(op.p, resumeMsg{})
		case 1:
			o.faults--
			opName := "read"
			if op.p.point == "be.Write" {
				opName = "write"
			}

			ie := &injectedErr{op: opName, key: op.p.key, step: s.step}
			w.log.mu.Lock()
			w.log.berrs[op.p.key] = append(w.log.berrs[op.p.key], ie)
			w.log.mu.Unlock()
			c.Tracef("[%d] resume %s @ %s %s WITH FAULT %v", s.step, op.p.task.name, op.p.point, keyName([]byte(op.p.key)), ie)
			c.Class("fault-" + opName)
			s.resume(op.p, resumeMsg{fault: ie})
		case 2:
			g := gets[next]
			next++
			c.Tracef("[%d] start g%d Get(%s) ttl=%v cell=%v skipRead=%v builderFails=%v", s.step, g.idx, keyName(g.key), g.ttl, g.ttlCell, g.skipRead, g.buildFails)
			w.startGet(g)
		case 3:
			o.clockSteps--
			d := o.clockMenu[c.Pick("clock", len(o.clockMenu))]
			time.Sleep(d)
			c.Tracef("[%d] advance clock by %v", s.step, d)
			c.Class("clock-advance")
		case 4:
			o.external--

			wCleanup := 0
			if o.extCleanup {
				wCleanup = 3
			}

			extKind := c.Weighted("ext-kind", 3, 3, 2, 1, wCleanup)

			if extKind == 4 {
				// the backend's janitor runs a cycle (entries expired longer than its DeleteExpiredAfter go), then
				// somebody writes other keys that live in the same shards as the keys of the scenario
				w.be.Cleanup()

				seen := map[string]bool{}

				for _, g := range gets {
					if seen[string(g.key)] {
						continue
					}

					seen[string(g.key)] = true

					for j := 0; j < 2; j++ {
						nb := shardNeighbour(g.key, j)
						w.extWrites++
						tok := tokenFor(nb, "ext", w.extWrites)
						_ = w.be.Write(ttlCtx(time.Hour), nb, tok)
						w.log.noteStored(string(nb), tok)
					}
				}

				c.Tracef("[%d] external cleanup cycle of the backend, then writes of same-shard neighbours", s.step)
				c.Class("external-cleanup-and-neighbour-writes")
			} else if extKind == 2 {
				// the caller of a Get that is under way cancels its context (a builder may take long)
				g := gets[c.Pick("cancel-get", next)]
				if g.cancelFn != nil {
					g.cancelFn()
				}

				c.Tracef("[%d] caller of g%d cancels its context", s.step, g.idx)
				c.Class("context-cancelled-while-get-runs")
			} else if extKind == 3 {
				// somebody walks the backend and gives up at the first entry (aborted export)
				n, err := w.be.Walk(func([]byte, interface{}, time.Time) error { return errWalkAborted })
				c.Tracef("[%d] external Walk aborted by its callback = (%d, %v)", s.step, n, err)
				c.Class("external-aborted-walk")
			} else if extKind == 1 && len(gets) > 0 {
				k := gets[c.Pick("ext-key", len(gets))].key
				err := w.be.Delete(bg, k)
				if err == nil {
					w.extDeleted++
				}

				c.Tracef("[%d] external Delete(%s) = %v", s.step, keyName(k), err)
				c.Class("external-delete")
			} else {
				// entries touched by ExpireAll count as expired: fresh / never-expiring ones always, already
				// expired ones iff they carry the ExpireAll instant afterwards
				nowNs := time.Now().UnixNano()
				before := map[string]int64{}
				_, _ = w.be.Walk(func(k []byte, _ interface{}, exp time.Time) error {
					before[string(k)] = exp.UnixNano()
					if exp.Equal(time.Unix(0, 0)) {
						before[string(k)] = 0
					}

					return nil
				})
				w.be.ExpireAll(bg)
				_, _ = w.be.Walk(func(k []byte, _ interface{}, exp time.Time) error {
					switch old := before[string(k)]; {
					case old != 0 && old < nowNs:
						w.extExpired++
						if exp.UnixNano() != nowNs {
							w.extExpiredSlack++ // visited but left alone: may or may not count
						}
					case old == nowNs:
						w.extExpired++
						w.extExpiredSlack++
					default:
						w.extExpired++
					}

					return nil
				})
				c.Tracef("[%d] external ExpireAll", s.step)
				c.Class("external-expireall")
			}
		}
	}

	c.Class("step-budget-exhausted")

	return false
}

// reportProblems turns violations noticed on task goroutines into failures (controller side).
func (w *world) reportProblems() {
	w.log.mu.Lock()
	ps := w.log.problems
	w.log.problems = nil
	w.log.mu.Unlock()

	if len(ps) > 0 {
		sig := ps[0]
		if i := bytes.IndexByte([]byte(sig), ':'); i > 0 {
			sig = sig[:i]
		}

		w.c.Failf(sig, "%s", ps[0])
	}
}

// foreignExpired returns the error a Read of an expired entry of some OTHER cache (non-generic or
// ShardedMapOf[string]) yields: it carries that cache's item, which has nothing to do with the keys
// of the frontend under test.
func (w *world) foreignExpired(generic bool) error {
	if w.foreignErr[generic] != nil {
		return w.foreignErr[generic]
	}

	kind := kindSharded
	if generic {
		kind = kindShardedOf
	}

	other := newCaseBackend(w.c, kind, cache.Config{
		Name: "other", TimeToLive: time.Hour, ExpirationJitter: -1,
		DeleteExpiredJobInterval: farFuture, DeleteExpiredAfter: farFuture, ItemsCountReportInterval: farFuture,
	})
	_ = other.Write(ttlCtx(-time.Minute), []byte("elsewhere"), "value-of-another-cache")
	r := other.Read(bg, []byte("elsewhere"))

	if w.foreignErr == nil {
		w.foreignErr = map[bool]error{}
	}

	w.foreignErr[generic] = r.Err
	w.c.Class("failure-wraps-expired-item-of-another-cache")

	return r.Err
}

// checkSide: the by-product cache holds exactly the keys the builders wrote, whatever they did to
// their key buffers afterwards.
func (w *world) checkSide() {
	if w.side == nil {
		return
	}

	w.log.mu.Lock()
	want := map[string]bool{}
	for _, k := range w.sideKeys {
		want[k] = true
	}
	w.log.mu.Unlock()

	got := map[string]bool{}

	_, _ = w.side.Walk(func(k []byte, _ interface{}, _ time.Time) error {
		got[string(k)] = true

		return nil
	})

	for k := range got {
		w.c.Assert(want[k], "side-key-corrupted", "the cache a builder wrote by-products to holds key %s which nobody wrote (the builder rewrote its key buffer after Write returned)", keyName([]byte(k)))
	}

	for k := range want {
		w.c.Assert(got[k], "side-key-corrupted", "key %s written by a builder to another cache is not there any more", keyName([]byte(k)))
	}
}
