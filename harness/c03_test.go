package harness

import (
	"context"
	"errors"
	"fmt"
	"math"
	"os"
	"testing"
	"testing/synctest"
	"time"

	"github.com/bool64/cache"
)

const c03Rule = "the complete consistent product entry state {absent, fresh, expired-acceptable, expired-too-old} x failure cache {empty, hit} x SyncUpdate x FailHard x MaxStaleness {0,set} x FailedUpdateTTL {cached, -1} x builder {ok, err} x 5 frontend/backend variants (Failover over ShardedMap/SyncMap, FailoverOf[string] over ShardedMapOf, FailoverOf[any] over ShardedMap/SyncMap) is enumerated by an outer loop (every cell visited, else harness error); " +
	"inside a cell rapid draws key, MaxStaleness, age since expiry on both sides of MaxStaleness including +/-1ns, UpdateTTL, SyncRead, caller TTL, FailedUpdateTTL value; a builder that parks decides 'returned before the build ended'; " +
	"oracle = decision function derived from the statement/README (result set, builder invocations, sync vs background, backend content + expiry and failure-cache content at quiescence); non-trivial = any cell other than fresh-hit and cold-miss-success"

type c03Cell struct {
	state, hit, syncUpdate, failHard, msSet, noFailCache, builderOK, variant int
}

func (cl c03Cell) String() string {
	return fmt.Sprintf("%s/fail-%s/SyncUpdate=%d/FailHard=%d/MaxStaleness=%s/FailedUpdateTTL=%s/builder=%s/%s",
		ksNames[cl.state], []string{"empty", "hit"}[cl.hit], cl.syncUpdate, cl.failHard, []string{"0", "set"}[cl.msSet],
		[]string{"cached", "-1"}[cl.noFailCache], []string{"err", "ok"}[cl.builderOK], variantNames[cl.variant])
}

var c03Cells = func() []c03Cell {
	var out []c03Cell

	for state := 0; state < 4; state++ {
		for hit := 0; hit < 2; hit++ {
			for su := 0; su < 2; su++ {
				for fh := 0; fh < 2; fh++ {
					for ms := 0; ms < 2; ms++ {
						for nf := 0; nf < 2; nf++ {
							for ok := 0; ok < 2; ok++ {
								for v := 0; v < nVariants; v++ {
									if state == ksStaleOld && ms == 0 {
										continue // no "too old" without MaxStaleness
									}

									if hit == 1 && nf == 1 {
										continue // no failure cache to hit
									}

									out = append(out, c03Cell{state, hit, su, fh, ms, nf, ok, v})
								}
							}
						}
					}
				}
			}
		}
	}

	return out
}()

// TestC03DecisionTable: a lone Get follows the documented stale/failure decision table.
func TestC03DecisionTable(t *testing.T) {
	if os.Getenv("VERIF_REPLAY") != "" {
		runCheck(t, "C03", "C03DecisionTable", c03Rule, propDecisionTable)

		return
	}

	for i := range c03Cells {
		runCheckPrefix(t, "C03", "C03DecisionTable", c03Rule, []int{i}, propDecisionTable)

		if t.Failed() {
			return
		}
	}

	st := statsFor("C03", "C03DecisionTable", c03Rule)
	st.mu.Lock()
	st.Extra["cells_total"] = len(c03Cells)
	visited := 0

	for k := range st.Classes {
		if len(k) > 5 && k[:5] == "cell=" {
			visited++
		}
	}

	st.Extra["cells_visited"] = visited
	st.mu.Unlock()

	if visited != len(c03Cells) {
		t.Fatalf("harness error: %d of %d cells visited", visited, len(c03Cells))
	}
}

func propDecisionTable(c *Case) {
	cl := c03Cells[c.Pick("cell", len(c03Cells))]
	c.Class("cell=" + cl.String())
	c.Tracef("cell %s", cl)

	if !(cl.state == ksFresh || (cl.state == ksAbsent && cl.hit == 0 && cl.builderOK == 1)) {
		c.NonTrivial()
	}

	cfg := foCfg{
		variant: cl.variant, syncUpdate: cl.syncUpdate == 1, failHard: cl.failHard == 1,
		syncRead: c.Bool("SyncRead"), backendTTL: time.Hour, logger: 0, stats: false,
	}

	if cl.msSet == 1 {
		cfg.maxStaleness = []time.Duration{30 * time.Second, time.Second, time.Hour, 2 * time.Nanosecond}[c.Pick("MaxStaleness", 4)]

		// "serve stale values (practically) for ever": every reachable age lies within it
		if cl.state == ksStaleRecent && c.Weighted("huge-MaxStaleness", 5, 1) == 1 {
			cfg.maxStaleness = []time.Duration{math.MaxInt64, 250 * 365 * 24 * time.Hour}[c.Pick("MaxStaleness-huge", 2)]
			c.Class("huge-MaxStaleness")
		}
	}

	// the backend's janitor never runs here: how long ago an entry expired does not change what a read reports
	cfg.backendDEA = []time.Duration{0, time.Second, time.Nanosecond}[c.Weighted("backend-DeleteExpiredAfter", 3, 1, 1)]

	if cl.noFailCache == 1 {
		cfg.failedUpdateTTL = -1
	} else {
		cfg.failedUpdateTTL = []time.Duration{0, 5 * time.Second, 10 * time.Minute}[c.Pick("FailedUpdateTTL", 3)]
	}

	cfg.updateTTL = []time.Duration{0, time.Second, time.Hour}[c.Pick("UpdateTTL", 3)]
	// what is cached is opaque: with ObserveMutability (and a stats tracker) old and new value are compared
	cfg.observeMut = c.Weighted("ObserveMutability", 2, 1) == 1
	cfg.stats = cfg.observeMut && c.Bool("stats")
	cfg.boxVals = cl.variant != 2 && c.Weighted("boxed-values", 2, 1) == 1

	var age time.Duration

	switch cl.state {
	case ksStaleRecent:
		if cl.msSet == 1 {
			age = []time.Duration{time.Nanosecond, cfg.maxStaleness / 2, cfg.maxStaleness - 1}[c.Pick("age", 3)]
			if age <= 0 {
				age = 1
			}

			if age > 50*365*24*time.Hour {
				age = []time.Duration{time.Hour, 48 * time.Hour, 40 * 365 * 24 * time.Hour}[c.Pick("age-huge", 3)]
			}
		} else {
			age = []time.Duration{time.Nanosecond, time.Hour, 240 * time.Hour}[c.Pick("age", 3)]
		}
	case ksStaleOld:
		// "expired longer than MaxStaleness": an age of exactly MaxStaleness is left open, start at +1ns
		age = cfg.maxStaleness + []time.Duration{1, 2, time.Hour, 240 * time.Hour}[c.Pick("age", 4)]

		// every expired entry "has expired longer than" a negative MaxStaleness
		if c.Weighted("negative-MaxStaleness", 4, 1) == 1 {
			cfg.maxStaleness = []time.Duration{-1, -time.Hour}[c.Pick("MaxStaleness", 2)]
			age = []time.Duration{1, time.Second, 2 * time.Hour}[c.Pick("age", 3)]
			c.Class("negative-MaxStaleness")
		}
	}

	callerTTL := []time.Duration{0, time.Hour, 10 * time.Minute}[c.Pick("callerTTL", 3)]

	// alternative preparation of stale entries: UnlimitedTTL backend + ExpireAll
	viaExpireAll := (cl.state == ksStaleRecent || cl.state == ksStaleOld) && c.Weighted("stale-via-expireall", 3, 1) == 1
	if viaExpireAll {
		cfg.backendTTL = cache.UnlimitedTTL
		c.Class("stale-via-ExpireAll-on-unlimited-backend")
	}
	key := append([]byte{}, baseKeys[c.Pick("key", len(baseKeys))]...)
	sc := &scenario{cfg: cfg, nkeys: 1, states: []int{cl.state}, ages: []time.Duration{age}, prefail: []bool{false}}

	c.Tracef("config: %s; key %s; expired %v ago; caller TTL %v", cfg, keyName(key), age, callerTTL)

	c.Bubble(func() {
		w := newWorld(c, cfg)
		// prepare() works on scenKeys; do it by hand for the drawn key.
		span := age + time.Second
		stale := "ini:stale@" + fmt.Sprintf("%x", key)

		// the cached value may also be nil (negative caching) where the value type allows it
		var staleVal interface{} = stale

		// (the interface{} frontend cannot tell a cached nil from "no previous value" when an update
		// fails, which the statement leaves open; there nil is only used in cells whose build succeeds)
		nilOK := cl.variant >= 3 || (cl.variant != 2 && (cl.builderOK == 1 || cl.state == ksFresh) && cl.hit == 0)

		if nilOK && c.Weighted("cached-nil", 4, 1) == 1 {
			staleVal, stale = nil, ""
			c.Class("cached-value-is-nil")
		}

		switch {
		case cl.state == ksFresh:
			_ = w.be.Write(ttlCtx(span+24*time.Hour), key, staleVal)
			time.Sleep(span)
		case (cl.state == ksStaleRecent || cl.state == ksStaleOld) && viaExpireAll:
			// a never-expiring entry of an UnlimitedTTL backend, expired through ExpireAll
			_ = w.be.Write(bg, key, staleVal)
			time.Sleep(time.Second)
			w.be.ExpireAll(bg)
			time.Sleep(age)
		case cl.state == ksStaleRecent || cl.state == ksStaleOld:
			_ = w.be.Write(ttlCtx(span-age), key, staleVal)
			time.Sleep(span)
		default:
			time.Sleep(span)
		}
		w.attach()

		_ = sc

		cachedErr := &buildErr{key: string(key), task: "cached", n: 0}
		if cl.hit == 1 {
			w.fe.WriteFailure(bg, key, cachedErr)
		}

		var oldE int64

		_, _ = w.be.Walk(func(k []byte, _ interface{}, exp time.Time) error {
			oldE = exp.UnixNano()

			return nil
		})

		// The lone Get, with a builder that parks until released.
		release := make(chan struct{})
		entered, exited, invocations := false, false, 0
		newTok := tokenFor(key, "lone", 1)
		bErr := &buildErr{key: string(key), task: "lone", n: 1}

		var (
			res    interface{}
			resErr error
			done   bool
		)

		ctx := context.Background()
		if callerTTL != 0 {
			ctx = cache.WithTTL(ctx, callerTTL, false)
		}

		// the table has no column for the state of the caller's context: a caller that has already
		// given up (cancelled / past its deadline) gets the same decisions
		switch c.Weighted("caller-ctx-done", 6, 1, 1) {
		case 1:
			var cancel context.CancelFunc

			ctx, cancel = context.WithCancel(ctx)
			cancel()
			c.Class("caller-context-cancelled")
		case 2:
			var cancel context.CancelFunc

			ctx, cancel = context.WithDeadline(ctx, time.Now().Add(-time.Second))
			c.OnClose(0, cancel)
			c.Class("caller-context-past-deadline")
		}

		t0 := time.Now()
		buf := append([]byte{}, key...)

		go func() {
			res, resErr = w.fe.Get(ctx, buf, func(context.Context) (string, error) {
				invocations++
				entered = true
				<-release
				exited = true

				if cl.builderOK == 1 {
					return newTok, nil
				}

				return "", bErr
			})
			done = true

			for i := range buf {
				buf[i] = 0xAA
			}
		}()

		synctest.Wait()

		returnedBeforeBuildEnd := done && entered && !exited
		blockedOnBuild := !done && entered
		c.Tracef("after Wait: done=%v builder entered=%v", done, entered)

		close(release)
		synctest.Wait()

		c.Assert(done, "get-stuck", "Get did not return after the builder was released")
		c.Tracef("Get = (%v, %v); builder invocations %d", res, resErr, invocations)

		isStale := func() bool { return resErr == nil && valEq(w.be.Generic(), res, staleVal) }
		isNew := func() bool { return resErr == nil && valEq(w.be.Generic(), res, newTok) }
		isErr := func(e error) bool { return resErr != nil && errors.Is(resErr, e) }
		acceptable := cl.state == ksStaleRecent
		failHard := cl.failHard == 1

		// expected post-state
		type post struct {
			present bool
			val     string
			e       int64
		}

		var (
			want post
			altE int64 = -1
		)

		finalTTL := callerTTL
		if finalTTL == 0 {
			finalTTL = time.Hour
		}

		neverExpires := callerTTL == 0 && cfg.backendTTL == cache.UnlimitedTTL

		sig := func(what string) string { return what + ":" + ksNames[cl.state] }

		switch {
		case cl.state == ksFresh:
			c.Assert(isStale() && invocations == 0, sig("fresh-served"), "fresh entry: got (%v, %v) with %d builds, want the cached value without building", res, resErr, invocations)
			want = post{true, stale, oldE}

		case cl.hit == 1:
			// a failure is cached: no build; README bullets 5 and 7 both apply -> result is a set
			c.Assert(invocations == 0, sig("build-despite-cached-failure"), "failure cached for the key, yet the builder was invoked %d times", invocations)

			switch cl.state {
			case ksAbsent:
				c.Assert(isErr(cachedErr), sig("cached-failure-served"), "absent entry + cached failure: got (%v, %v), want the cached error", res, resErr)
			case ksStaleRecent:
				c.Assert(isErr(cachedErr) || isStale(), sig("cached-failure-served"), "acceptable stale + cached failure: got (%v, %v), want the cached error or the stale value", res, resErr)
				// the refresh is promised "before the builder function is invoked"; no builder runs here,
				// so the stale entry may have been refreshed or left alone
				want = post{true, stale, t0.Add(cfg.effUpdateTTL()).UnixNano()}
				altE = oldE
			case ksStaleOld:
				c.Assert(isErr(cachedErr) || (isStale() && !failHard), sig("cached-failure-served"), "too-old stale + cached failure (FailHard=%v): got (%v, %v)", failHard, res, resErr)
				want = post{true, stale, oldE}
			}

		case cl.state == ksAbsent || cl.state == ksStaleOld:
			// blocks on a synchronous build
			c.Assert(invocations == 1, sig("sync-build-count"), "%s entry: builder invoked %d times, want 1", ksNames[cl.state], invocations)
			c.Assert(blockedOnBuild && !returnedBeforeBuildEnd, sig("sync-build-blocks"), "%s entry: Get returned before the build ended (must block)", ksNames[cl.state])

			if cl.builderOK == 1 {
				c.Assert(isNew(), sig("sync-build-result"), "%s entry + successful build: got (%v, %v), want the new value (never the too-stale one)", ksNames[cl.state], res, resErr)
				want = post{true, newTok, t0.Add(finalTTL).UnixNano()}
				if neverExpires {
					want.e = 0
				}
			} else {
				if cl.state == ksStaleOld && !failHard {
					c.Assert(isStale(), sig("failed-update-serves-stale"), "too-old stale + failed build + !FailHard: got (%v, %v), want the stale value (README: served regardless of MaxStaleness)", res, resErr)
				} else {
					c.Assert(isErr(bErr), sig("failed-update-error"), "%s entry + failed build (FailHard=%v): got (%v, %v), want the builder error", ksNames[cl.state], failHard, res, resErr)
				}

				if cl.state == ksStaleOld {
					want = post{true, stale, oldE}
				}
			}

		case acceptable:
			c.Assert(invocations == 1, sig("update-build-count"), "acceptable stale: builder invoked %d times, want 1", invocations)

			if cl.syncUpdate == 0 {
				c.Assert(returnedBeforeBuildEnd, sig("background-update"), "acceptable stale, SyncUpdate off: Get must return the stale value while the build runs in background (done=%v entered=%v)", done, entered)
				c.Assert(isStale(), sig("background-update-result"), "acceptable stale, background update: got (%v, %v), want the stale value", res, resErr)
			} else {
				c.Assert(blockedOnBuild, sig("sync-update-blocks"), "acceptable stale, SyncUpdate on: Get returned before the build ended")

				switch {
				case cl.builderOK == 1:
					c.Assert(isNew(), sig("sync-update-result"), "SyncUpdate + successful build: got (%v, %v), want the new value", res, resErr)
				case failHard:
					c.Assert(isErr(bErr), sig("failhard-error"), "SyncUpdate + failed build + FailHard: got (%v, %v), want the builder error", res, resErr)
				default:
					c.Assert(isStale(), sig("failed-update-serves-stale"), "SyncUpdate + failed build: got (%v, %v), want the stale value", res, resErr)
				}
			}

			if cl.builderOK == 1 {
				want = post{true, newTok, t0.Add(finalTTL).UnixNano()}
				if neverExpires {
					want.e = 0
				}
			} else {
				want = post{true, stale, t0.Add(cfg.effUpdateTTL()).UnixNano()}
			}
		}

		// post-state: backend
		var got post

		n, _ := w.be.Walk(func(k []byte, v interface{}, exp time.Time) error {
			c.Assert(string(k) == string(key), "foreign-key-written", "backend holds key %s", keyName(k))
			got = post{true, gstr(v), exp.UnixNano()}

			return nil
		})
		c.Assert(n <= 1, "foreign-key-written", "backend holds %d entries", n)
		c.Tracef("backend at quiescence: %+v, want %+v", got, want)
		c.Assert(got.present == want.present && got.val == want.val, sig("post-backend-value"), "backend holds %+v at quiescence, want %+v", got, want)
		c.Assert(got.e == want.e || (altE >= 0 && got.e == altE), sig("post-backend-expiry"), "backend entry expires at %d (offset %v), want %d (offset %v)", got.e, time.Duration(got.e-t0.UnixNano()), want.e, time.Duration(want.e-t0.UnixNano()))

		// post-state: failure cache
		fe, cached := w.fe.FailureCached(key)

		switch {
		case cl.hit == 1:
			c.Assert(cached && errors.Is(fe, cachedErr), sig("post-failure-cache"), "cached failure disappeared or changed: %v %v", fe, cached)
		case invocations == 1 && cl.builderOK == 0 && cl.noFailCache == 0:
			c.Assert(cached && errors.Is(fe, bErr), sig("post-failure-cache"), "failed build was not cached: %v %v", fe, cached)
		default:
			c.Assert(!cached, sig("post-failure-cache"), "failure cache holds %v although no build failed (or caching is disabled)", fe)
		}

		c.Assert(w.fe.KeyLocks() == 0, "leaked-key-lock", "%d key locks held after the lone Get", w.fe.KeyLocks())
	})
}
