package harness

import (
	"context"
	"errors"
	"fmt"
	"testing"
	"testing/synctest"
	"time"

	"github.com/bool64/cache"
)

const c05mRule = "many keys fail at once: Failover / FailoverOf creating their OWN backend from a BackendConfig that carries eviction settings (CountSoftLimit 0 / 3 / 40, EvictFraction, EvictionNeeded always true, strategy, DeleteExpiredJobInterval 0 / 10s / 1h), or sitting on a given backend with such a BackendConfig next to it; " +
	"K in 1..120 distinct keys whose builders fail at the same instant, FailedUpdateTTL F in {10m, 1h, default 20s}; the fake clock moves by 0.2F..0.9F in 1-4 legs (cleanup cycles of the failure cache and of the backend run in between), every key is requested again after each leg; " +
	"oracle: inside [t_fail, t_fail+0.95F) no builder is invoked and every Get returns the error cached for its key; after t_fail+1.05F each key builds exactly once; non-trivial = K exceeds a configured count limit or EvictionNeeded is set, and a cleanup cycle ran inside the window"

// TestC05ManyFailures: the failure cache keeps every failure for FailedUpdateTTL, whatever the backend's eviction settings are.
func TestC05ManyFailures(t *testing.T) {
	runCheck(t, "C05", "C05ManyFailures", c05mRule, func(c *Case) {
		generic := c.Bool("FailoverOf")
		ownBackend := c.Weighted("own-backend", 1, 2) == 1
		syncRead := c.Bool("SyncRead")
		f := []time.Duration{10 * time.Minute, time.Hour, 0}[c.Pick("FailedUpdateTTL", 3)]
		limit := []uint32{0, 3, 40}[c.Pick("CountSoftLimit", 3)]
		frac := []float64{0, 0.5, 1}[c.Pick("EvictFraction", 3)]
		needed := c.Weighted("EvictionNeeded", 2, 1) == 1
		strategy := cache.EvictionStrategy(c.Pick("strategy", 3))
		interval := []time.Duration{0, 10 * time.Second, time.Hour}[c.Pick("DeleteExpiredJobInterval", 3)]
		k := []int{1, 4, 12, 50, 120}[c.Pick("keys", 5)]
		legs := c.Int("legs", 1, 4)

		effF := f
		if f == 0 {
			effF = 20 * time.Second
		}

		bcfg := cache.Config{
			TimeToLive: time.Hour, CountSoftLimit: uint64(limit), EvictFraction: frac, EvictionStrategy: strategy,
			DeleteExpiredJobInterval: interval, ItemsCountReportInterval: farFuture,
		}
		if needed {
			bcfg.EvictionNeeded = func() bool { return true }
		}

		c.Tracef("FailoverOf=%v own backend=%v SyncRead=%v FailedUpdateTTL=%v BackendConfig{CountSoftLimit=%d EvictFraction=%v EvictionNeeded=%v strategy=%d DeleteExpiredJobInterval=%v} keys=%d legs=%d",
			generic, ownBackend, syncRead, f, limit, frac, needed, strategy, interval, k, legs)
		c.Class(fmt.Sprintf("own-backend=%v", ownBackend))

		c.Bubble(func() {
			var (
				get func(ctx context.Context, key []byte, build func(ctx context.Context) (string, error)) (interface{}, error)
				kl  func() int
			)

			if generic {
				fc := cache.FailoverConfigOf[string]{Name: "many", BackendConfig: bcfg, FailedUpdateTTL: f, SyncRead: syncRead}
				if !ownBackend {
					fc.Backend = newCaseBackend(c, kindShardedOf, cache.Config{TimeToLive: time.Hour, ItemsCountReportInterval: farFuture}).Raw().(*cache.ShardedMapOf[string])
				}

				fo := cache.NewFailoverOf[string](fc.Use)
				c.OnClose(1, fo.VerifClose)

				get = func(ctx context.Context, key []byte, build func(ctx context.Context) (string, error)) (interface{}, error) {
					return fo.Get(ctx, key, build)
				}
				kl = foOf{fo}.KeyLocks
			} else {
				fc := cache.FailoverConfig{Name: "many", BackendConfig: bcfg, FailedUpdateTTL: f, SyncRead: syncRead}
				if !ownBackend {
					fc.Backend = newCaseBackend(c, []string{kindSharded, kindSync}[c.Pick("kind", 2)], cache.Config{TimeToLive: time.Hour, ItemsCountReportInterval: farFuture}).Raw().(cache.ReadWriter)
				}

				fo := cache.NewFailover(fc.Use)
				c.OnClose(1, fo.VerifClose)

				get = func(ctx context.Context, key []byte, build func(ctx context.Context) (string, error)) (interface{}, error) {
					return fo.Get(ctx, key, func(ctx context.Context) (interface{}, error) { return build(ctx) })
				}
				kl = foPlain{f: fo}.KeyLocks
			}

			keys := make([][]byte, k)
			errs := make([]error, k)
			t0 := time.Now()

			for i := range keys {
				keys[i] = []byte(fmt.Sprintf("fail-%03d", i))
				errs[i] = &buildErr{key: string(keys[i]), task: "first", n: i}
				e := errs[i]

				_, err := get(bg, append([]byte{}, keys[i]...), func(context.Context) (string, error) { return "", e })
				c.Assert(errors.Is(err, e), "first-failure", "Get(%s) with a failing builder returned %v", keyName(keys[i]), err)
			}

			cycles := false
			total := time.Duration(0)

			for l := 0; l < legs; l++ {
				d := time.Duration(float64(effF) * []float64{0.05, 0.2, 0.3}[c.Pick("leg", 3)])
				if total+d >= time.Duration(float64(effF)*0.94) {
					break
				}

				total += d
				time.Sleep(d)
				synctest.Wait()

				if total >= time.Minute || (interval != 0 && total >= interval) {
					cycles = true
				}

				for i, key := range keys {
					inv := 0
					_, err := get(bg, append([]byte{}, key...), func(context.Context) (string, error) {
						inv++

						return "", &buildErr{key: string(key), task: "in-window", n: i}
					})

					if inv != 0 {
						c.Failf("build-in-suppression-window", "builder for %s (one of %d keys that failed together) invoked %v after its failure, FailedUpdateTTL=%v", keyName(key), k, time.Since(t0), effF)
					}

					c.Assert(errors.Is(err, errs[i]), "other-error-in-window", "inside the suppression window Get(%s) returned %v, want the cached %v", keyName(key), err, errs[i])
				}
			}

			if cycles && (needed || (limit != 0 && k > int(limit))) {
				c.Class("cleanup-cycle-with-eviction-settings-inside-the-window")
				c.NonTrivial()
			}

			// after the window every key is built again, once
			time.Sleep(time.Until(t0.Add(time.Duration(float64(effF)*1.06) + time.Second)))
			synctest.Wait()

			for i, key := range keys {
				inv := 0
				tok := tokenFor(key, "after", i)
				v, err := get(bg, append([]byte{}, key...), func(context.Context) (string, error) {
					inv++

					return tok, nil
				})

				c.Assert(inv == 1 && err == nil && gstr(v) == tok, "no-build-after-window", "after FailedUpdateTTL Get(%s) = (%v, %v) with %d builds, want one build and its value", keyName(key), v, err, inv)
			}

			c.Assert(kl() == 0, "leaked-key-lock", "%d key locks held at the end", kl())
		})
	})
}
