package harness

import (
	"bytes"
	"testing"

	"github.com/bool64/cache"
	"github.com/cespare/xxhash/v2"
)

const c09aRule = "stateful backend model over 1-2 families of 2-4 mutually colliding keys (same xxhash64, constructed from the hash algebra: 64-200 byte keys differing in two lanes) plus ordinary keys; " +
	"5-60 ops as in C07; oracle = refMap relaxed exactly as the statement allows (an entry displaced by a colliding write may read as missing, never as another key's value/staleness; Delete never removes another key); " +
	"SyncMap runs the same histories as an exact control; non-trivial = both members of a colliding pair were written and the first was then read or deleted"

// TestC09Collisions: hash collisions never leak another key's entry.
func TestC09Collisions(t *testing.T) {
	runCheck(t, "C09", "C09Collisions", c09aRule, propCollisions)
}

func drawCollisionFamilies(c *Case) ([][]byte, map[string]int) {
	var keys [][]byte

	fam := map[string]int{}
	nf := c.Int("families", 1, 2)

	for f := 0; f < nf; f++ {
		n := c.Int("len", 64, 200)
		base := bytes.Repeat([]byte{byte('A' + f), byte(c.Int("fill", 0, 255))}, n)[:n]
		size := c.Int("family-size", 2, 4)
		members := [][]byte{base}

		for len(members) < size {
			lane := c.Int("lane", 0, 3)
			a0 := uint64(c.Int("a0", 0, 1<<40))*0x9E3779B97F4A7C15 + uint64(len(members))
			k := collide(members[c.Pick("from", len(members))], lane, a0)

			dup := false

			for _, m := range members {
				if bytes.Equal(m, k) {
					dup = true
				}
			}

			if !dup {
				members = append(members, k)
			}
		}

		h := xxhash.Sum64(members[0])
		for _, m := range members {
			if xxhash.Sum64(m) != h {
				panic("family members do not collide")
			}

			fam[string(m)] = f
			keys = append(keys, m)
		}
	}

	keys = append(keys, baseKeys[0], baseKeys[1], baseKeys[6])

	return keys, fam
}

func propCollisions(c *Case) {
	kind := backendKinds[c.Weighted("backend", 3, 1, 3)]
	cfgTTL := cfgTTLs[c.Pick("cfgTTL", len(cfgTTLs))]
	keys, fam := drawCollisionFamilies(c)

	c.Class("backend=" + kind)
	c.Tracef("backend=%s TimeToLive=%v keys=%d", kind, cfgTTL, len(keys))

	c.Bubble(func() {
		be := newCaseBackend(c, kind, cache.Config{
			TimeToLive: cfgTTL, ExpirationJitter: -1,
			DeleteExpiredJobInterval: farFuture, DeleteExpiredAfter: farFuture,
		})
		d := newMapDriver(c, be, cfgTTL, -1)
		d.family = fam
		backendOps(c, d, keys, c.Int("nops", 5, 60))
		d.compareAll()
	})
}
