package harness

import (
	"bytes"
	"testing"

	"github.com/bool64/cache"
	"github.com/cespare/xxhash/v2"
)

const c09aRule = "stateful backend model over 1-2 families of 2-4 mutually colliding keys (same xxhash64, constructed from the hash algebra: 64-200 byte keys differing in two lanes) plus ordinary keys; " +
	"5-60 ops as in C07; oracle = refMap relaxed exactly as the statement allows (an entry displaced by a colliding write may read as missing, never as another key's value/staleness; Delete never removes another key); " +
	"SyncMap runs the same histories as an exact control; non-trivial = both members of a colliding pair were written and the first was then read or deleted"

// TestC09Collisions: hash collisions never leak another key's entry.
func TestC09Collisions(t *testing.T) {
	runCheck(t, "C09", "C09Collisions", c09aRule, propCollisions)
}

func drawCollisionFamilies(c *Case) ([][]byte, map[string]int) {
	var keys [][]byte

	fam := map[string]int{}
	nf := c.Int("families", 1, 2)

	for f := 0; f < nf; f++ {
		n := c.Int("len", 64, 200)
		base := bytes.Repeat([]byte{byte('A' + f), byte(c.Int("fill", 0, 255))}, n)[:n]
		size := c.Int("family-size", 2, 4)
		members := [][]byte{base}

		for len(members) < size {
			lane := c.Int("lane", 0, 3)
			a0 := uint64(c.Int("a0", 0, 1<<40))*0x9E3779B97F4A7C15 + uint64(len(members))
			k := collide(members[c.Pick("from", len(members))], lane, a0)

			dup := false

			for _, m := range members {
				if bytes.Equal(m, k) {
					dup = true
				}
			}

			if !dup {
				members = append(members, k)
			}
		}

		h := xxhash.Sum64(members[0])
		for _, m := range members {
			if xxhash.Sum64(m) != h {
				panic("family members do not collide")
			}

			fam[string(m)] = f
			keys = append(keys, m)
		}
	}

	keys = append(keys, baseKeys[0], baseKeys[1], baseKeys[6])

	return keys, fam
}

func propCollisions(c *Case) {
	kind := backendKinds[c.Weighted("backend", 3, 1, 3)]
	cfgTTL := cfgTTLs[c.Pick("cfgTTL", len(cfgTTLs))]
	keys, fam := drawCollisionFamilies(c)

	c.Class("backend=" + kind)
	c.Tracef("backend=%s TimeToLive=%v keys=%d", kind, cfgTTL, len(keys))

	c.Bubble(func() {
		be := newCaseBackend(c, kind, cache.Config{
			TimeToLive: cfgTTL, ExpirationJitter: -1,
			DeleteExpiredJobInterval: farFuture, DeleteExpiredAfter: farFuture,
		})
		d := newMapDriver(c, be, cfgTTL, -1)
		d.family = fam
		backendOps(c, d, keys, c.Int("nops", 5, 60))
		d.compareAll()
	})
}

const c09bRule = "buffer reuse: Failover with background updates forced (SyncUpdate off), 2-3 keys initially stale, 1-5 Gets whose callers overwrite their key buffer with ANOTHER live key's bytes (or 0xAA) as a schedulable step after Get returned, i.e. before or after the parked background build resumes; " +
	"oracle = C04's quiescence oracle: every value sits under its own key, the backend holds only the scenario's keys each with its last written value, no key lock remains, every key can be rebuilt; non-trivial = a buffer was overwritten with another key while a background build of the case was still parked"

// TestC09BufferReuse: no component keeps a reference to the caller's key slice.
func TestC09BufferReuse(t *testing.T) {
	runCheck(t, "C09", "C09BufferReuse", c09bRule, func(c *Case) {
		propFailoverSched(c, scenOpts{
			maxKeys: 3, minGets: 1, maxGets: 5, postActions: true, failPct: 20,
			initStates: []int{ksStaleRecent, ksStaleRecent, ksFresh},
			forceCfg: func(cfg *foCfg) {
				cfg.syncUpdate = false
				cfg.maxStaleness = 0
			},
		}, func(w *world, sc *scenario, complete bool) {
			w.checkQuiescence(sc, complete)

			// non-trivial: some "returned" step of a Get with poison mode 1 was resumed before its bg build finished
			for _, g := range sc.gets {
				if g.poison != 1 || string(g.otherKey) == string(g.key) {
					continue
				}

				for _, b := range w.log.builds {
					if b.getIdx == g.idx && len(b.task) > 3 && b.task[len(b.task)-4:len(b.task)-1] == ".bg" {
						for _, gr := range w.log.gets {
							if gr.idx == g.idx && gr.done {
								rs := w.log.resumes[gr.task]
								if len(rs) > 0 && rs[len(rs)-1] < b.exitStep {
									c.Class("buffer-overwritten-while-build-parked")
									c.NonTrivial()
								}
							}
						}
					}
				}
			}
		})
	})
}

const c09cRule = "Failover over constructed xxhash64-colliding keys: the scenario's key alphabet is a pair of distinct 64-byte keys with the same 64-bit hash plus one ordinary key; C02-style generated schedules with concurrent Gets on the colliding keys; " +
	"oracle: C02 provenance (a Get never returns a value or error produced for the other key) + C04 quiescence (values sit under their own key, every key can be rebuilt); a collision may cost a miss/rebuild, never a leak; non-trivial = Gets on both colliding keys were in flight in one case"

// TestC09FailoverCollision: per-key build locks and results are not mixed up between colliding keys.
func TestC09FailoverCollision(t *testing.T) {
	runCheck(t, "C09", "C09FailoverCollision", c09cRule, func(c *Case) {
		base := bytes.Repeat([]byte("collide!"), 8)
		k2 := collide(base, c.Int("lane", 0, 3), uint64(c.Int("a0", 1, 1<<30))*0x9E3779B97F4A7C15)
		other := bytes.Repeat([]byte("ordinary"), 8)
		keys := [][]byte{base, k2, other}

		propFailoverSched(c, scenOpts{
			keys: keys, maxKeys: 3, minGets: 2, maxGets: 6, postActions: true, failPct: 40, errKinds: true, prefail: true, clock: 1, external: 2, extCleanup: true,
		}, func(w *world, sc *scenario, complete bool) {
			w.checkProvenance()
			w.checkQuiescenceLossy(sc, complete)

			used := map[string]bool{}
			for _, g := range sc.gets {
				used[string(g.key)] = true
			}

			if used[string(base)] && used[string(k2)] {
				c.Class("both-colliding-keys-used")
				c.NonTrivial()
			}
		})
	})
}
