package harness

import (
	"bytes"
	"context"
	"fmt"
	"io"
	"os"
	"path/filepath"
	"regexp"
	"sort"
	"strings"
	"sync"
	"testing"
	"time"

	"github.com/bool64/cache"
)

const c16aRule = "every unordered pair of public operations per subject is enumerated completely (subjects: 3 backends x 3 eviction strategies, Failover and FailoverOf on each backend, InvalidationIndex, Invalidator); each pair runs as a two-goroutine program (each goroutine repeats its operation 30 times from a barrier, 3 fresh instances) in the -race binary; " +
	"oracle: the race detector's log (GORACE log_path) must not grow while the program runs and the process must not die of a runtime fault; a case = one (subject, opA, opB) program; non-trivial = at least one of the two operations mutates shared state"

const c16bRule = "random programs: subject drawn, 2-6 goroutines each with 1-4 generated operations (repeated 20 times), generated Gosched hints, 2 fresh instances, in the -race binary; oracle as for the pairs; non-trivial = >=3 goroutines with >=1 mutating operation"

// raceOp is one public operation on a shared subject instance.
type raceOp struct {
	name    string
	mutates bool
	run     func(inst *raceInst, g, i int)
}

type raceSubject struct {
	name string
	make func() *raceInst
	ops  []raceOp
}

type raceInst struct {
	be    Backend
	fe    frontend
	idx   *cache.InvalidationIndex
	inv   *cache.Invalidator
	dump  []byte
	close func()
	// a context carrying a TTL that the client shares between goroutines (it only ever reads it)
	sharedCtx context.Context
}

var raceKeys = [][]byte{[]byte("r0"), []byte("r1"), []byte("r2"), []byte("r3"), []byte("r4"), []byte("r5")}

func backendRaceOps() []raceOp {
	return []raceOp{
		{"Read", false, func(in *raceInst, g, i int) { in.be.Read(bg, raceKeys[i%4]) }},
		{"ReadMissing", false, func(in *raceInst, g, i int) { in.be.Read(bg, []byte("nope")) }},
		{"Write", true, func(in *raceInst, g, i int) { _ = in.be.Write(bg, raceKeys[i%4], "w") }},
		{"WriteNew", true, func(in *raceInst, g, i int) { _ = in.be.Write(bg, []byte(fmt.Sprintf("n%d-%d", g, i)), "w") }},
		{"WriteTTL", true, func(in *raceInst, g, i int) { _ = in.be.Write(ttlCtx(time.Minute), raceKeys[i%4], "w") }},
		// keys private to the goroutine: no bucket lock orders the two writers
		{"WriteTTLOwnKeys", true, func(in *raceInst, g, i int) {
			_ = in.be.Write(ttlCtx(time.Minute), []byte(fmt.Sprintf("own-%d-%d", g, i)), "w")
		}},
		// the caller builds its keys in one buffer and rewrites it as soon as Write has returned
		{"WriteReusedKeyBuffer", true, func(in *raceInst, g, i int) {
			buf := []byte(fmt.Sprintf("reuse-%02d-%04d", g, i))
			_ = in.be.Write(bg, buf, "w")

			for j := range buf {
				buf[j] = 'x'
			}
		}},
		{"Delete", true, func(in *raceInst, g, i int) { _ = in.be.Delete(bg, raceKeys[i%4]) }},
		{"ExpireAll", true, func(in *raceInst, g, i int) { in.be.ExpireAll(bg) }},
		{"DeleteAll", true, func(in *raceInst, g, i int) { in.be.DeleteAll(bg) }},
		{"Len", false, func(in *raceInst, g, i int) { in.be.Len() }},
		{"Walk", false, func(in *raceInst, g, i int) {
			_, _ = in.be.Walk(func(k []byte, v interface{}, exp time.Time) error {
				_ = len(k)
				_ = v
				_ = exp.IsZero()

				return nil
			})
		}},
		// a walk given up at its first entry, a dump into a writer that fails: the abort paths (and whatever they log)
		{"WalkAborted", false, func(in *raceInst, g, i int) {
			_, _ = in.be.Walk(func([]byte, interface{}, time.Time) error { return errWalkAborted })
		}},
		{"DumpFailingWriter", false, func(in *raceInst, g, i int) { _, _ = in.be.Dump(&failingWriter{left: 20}) }},
		{"Dump", false, func(in *raceInst, g, i int) { _, _ = in.be.Dump(io.Discard) }},
		{"Restore", true, func(in *raceInst, g, i int) { _, _ = in.be.Restore(bytes.NewReader(in.dump)) }},
		{"LoadStore", true, func(in *raceInst, g, i int) {
			if in.be.HasLoadStore() {
				in.be.Store(raceKeys[i%4], "s")
				in.be.Load(raceKeys[(i+1)%4])
			} else {
				in.be.Read(bg, raceKeys[i%4])
			}
		}},
		{"Cleanup", true, func(in *raceInst, g, i int) { in.be.Cleanup() }},
		{"AddInvalidationLabels", true, func(in *raceInst, g, i int) {
			in.be.Index().AddInvalidationLabels(raceKeys[i%4], "lab")
		}},
		{"InvalidateByLabels", true, func(in *raceInst, g, i int) { _, _ = in.be.Index().InvalidateByLabels(bg, "lab") }},
	}
}

func makeBackendInst(kind string, strategy cache.EvictionStrategy) func() *raceInst {
	return makeBackendInstTTL(kind, strategy, time.Hour)
}

func makeBackendInstTTL(kind string, strategy cache.EvictionStrategy, cfgTTL time.Duration) func() *raceInst {
	return makeBackendInstLogged(kind, strategy, cfgTTL, false)
}

// makeBackendInstLogged: with logged, the cache has a logger that accepts every level and a stats tracker.
func makeBackendInstLogged(kind string, strategy cache.EvictionStrategy, cfgTTL time.Duration, logged bool) func() *raceInst {
	return func() *raceInst {
		cfg := cache.Config{
			TimeToLive: cfgTTL, EvictionStrategy: strategy, CountSoftLimit: 6, EvictFraction: 0.3,
			DeleteExpiredJobInterval: farFuture, DeleteExpiredAfter: time.Hour, ItemsCountReportInterval: farFuture,
		}
		if logged {
			cfg.Logger, cfg.Stats = sinkLogger{}, newCountTracker()
		}
		be := newBackend(kind, cfg)

		for i, k := range raceKeys {
			ttl := time.Hour
			if i%2 == 1 {
				ttl = -time.Minute
			}

			if cfgTTL == cache.UnlimitedTTL {
				ttl = 0 // a fresh UnlimitedTTL cache: no explicit expiration has been set yet
			}

			_ = be.Write(ttlCtx(ttl), k, "init")
		}

		var buf bytes.Buffer

		_, _ = be.Dump(&buf)

		return &raceInst{be: be, dump: buf.Bytes(), close: be.Close}
	}
}

func failoverRaceOps() []raceOp {
	get := func(in *raceInst, key []byte, ctx context.Context) {
		_, _ = in.fe.Get(ctx, key, func(context.Context) (string, error) { return "built", nil })
	}

	return []raceOp{
		{"GetSameKey", true, func(in *raceInst, g, i int) { get(in, []byte("same"), bg) }},
		{"GetOtherKey", true, func(in *raceInst, g, i int) { get(in, []byte(fmt.Sprintf("other-%d", g)), bg) }},
		{"GetStale", true, func(in *raceInst, g, i int) { get(in, raceKeys[1], bg) }},
		{"GetSkipRead", true, func(in *raceInst, g, i int) { get(in, []byte("same"), cache.WithSkipRead(bg)) }},
		// a builder that panics (the caller recovers): waiters of that build must not race with the unwinding owner
		{"GetSkipReadPanickingBuilder", true, func(in *raceInst, g, i int) {
			defer func() { _ = recover() }()

			_, _ = in.fe.Get(cache.WithSkipRead(bg), []byte("same"), func(context.Context) (string, error) { panic("builder gave up") })
		}},
		{"GetFailing", true, func(in *raceInst, g, i int) {
			_, _ = in.fe.Get(bg, []byte("failing"), func(context.Context) (string, error) { return "", io.ErrUnexpectedEOF })
		}},
		{"GetReuseBuffer", true, func(in *raceInst, g, i int) {
			buf := append([]byte{}, raceKeys[3]...)
			get(in, buf, bg)

			for j := range buf {
				buf[j] = 'x'
			}
		}},
		// one TTL-carrying context shared by all callers; keys r1/r3 start out expired (stale refresh path)
		{"GetStaleSharedTTLCtx", true, func(in *raceInst, g, i int) { get(in, raceKeys[1+2*((g+i)%2)], in.sharedCtx) }},
		{"GetNewKeySharedTTLCtx", true, func(in *raceInst, g, i int) { get(in, []byte(fmt.Sprintf("shared-%d-%d", g, i)), in.sharedCtx) }},
		{"ExpireAllBackend", true, func(in *raceInst, g, i int) { in.be.ExpireAll(bg) }},
		{"WalkBackend", false, func(in *raceInst, g, i int) {
			_, _ = in.be.Walk(func(k []byte, v interface{}, exp time.Time) error { return nil })
		}},
	}
}

func makeFailoverInst(variant int, syncRead bool) func() *raceInst {
	return func() *raceInst {
		kind := variantKinds[variant]
		in := makeBackendInst(kind, cache.EvictMostExpired)()

		if variant >= 3 {
			f := cache.NewFailoverOf[any](cache.FailoverConfigOf[any]{
				Backend: in.be.Raw().(cache.ReadWriter), SyncRead: syncRead, UpdateTTL: time.Millisecond, FailedUpdateTTL: time.Millisecond,
			}.Use)
			in.fe = foOfAny{f: f}
		} else if variant == 2 {
			f := cache.NewFailoverOf[string](cache.FailoverConfigOf[string]{
				Backend: in.be.Raw().(*cache.ShardedMapOf[string]), SyncRead: syncRead, UpdateTTL: time.Millisecond, FailedUpdateTTL: time.Millisecond,
			}.Use)
			in.fe = foOf{f}
		} else {
			f := cache.NewFailover(cache.FailoverConfig{
				Backend: in.be.Raw().(cache.ReadWriter), SyncRead: syncRead, UpdateTTL: time.Millisecond, FailedUpdateTTL: time.Millisecond,
			}.Use)
			in.fe = foPlain{f: f}
		}

		in.sharedCtx = cache.WithTTL(context.Background(), time.Hour, false)

		beClose := in.close
		in.close = func() {
			in.fe.Close()
			beClose()
		}

		return in
	}
}

func indexRaceOps() []raceOp {
	return []raceOp{
		{"AddCacheNew", true, func(in *raceInst, g, i int) { in.idx.AddCache(fmt.Sprintf("c%d-%d", g, i), cache.NoOp{}) }},
		{"AddCacheExisting", true, func(in *raceInst, g, i int) { in.idx.AddCache("default", cache.NoOp{}) }},
		{"AddLabelsExistingName", true, func(in *raceInst, g, i int) { in.idx.AddLabels("default", raceKeys[i%4], "l1", "l2") }},
		{"AddLabelsNewName", true, func(in *raceInst, g, i int) { in.idx.AddLabels(fmt.Sprintf("n%d-%d", g, i), raceKeys[i%4], "l1") }},
		{"InvalidateByLabels", true, func(in *raceInst, g, i int) { _, _ = in.idx.InvalidateByLabels(bg, "l1", "l2") }},
	}
}

// failingDeleter makes every invalidation take the failure path (unprocessed keys are put back).
type failingDeleter struct{}

func (failingDeleter) Delete(context.Context, []byte) error { return io.ErrClosedPipe }

func makeIndexInst() *raceInst {
	in := makeBackendInst(kindSharded, cache.EvictMostExpired)()
	in.idx = cache.NewInvalidationIndex(in.be.Deleter())
	in.idx.AddLabels("default", raceKeys[0], "l1")

	return in
}

func invalidatorRaceOps() []raceOp {
	return []raceOp{
		{"Invalidate", true, func(in *raceInst, g, i int) { _ = in.inv.Invalidate(bg) }},
		{"InvalidateAgain", true, func(in *raceInst, g, i int) { _ = in.inv.Invalidate(context.Background()) }},
	}
}

func makeInvalidatorInst() *raceInst {
	in := makeBackendInst(kindSharded, cache.EvictMostExpired)()
	in.inv = &cache.Invalidator{SkipInterval: time.Nanosecond}
	in.inv.Callbacks = append(in.inv.Callbacks, in.be.ExpireAll, in.be.DeleteAll)

	return in
}

var raceSubjects = func() []raceSubject {
	var subs []raceSubject

	for _, kind := range backendKinds {
		for s, sn := range []string{"MostExpired", "LRU", "LFU"} {
			subs = append(subs, raceSubject{name: kind + "/" + sn, make: makeBackendInst(kind, cache.EvictionStrategy(s)), ops: backendRaceOps()})
		}
	}

	for _, kind := range backendKinds {
		subs = append(subs, raceSubject{name: kind + "/LRU/logger+stats", make: makeBackendInstLogged(kind, cache.EvictLeastRecentlyUsed, time.Hour, true), ops: backendRaceOps()})
	}

	for _, kind := range backendKinds {
		subs = append(subs, raceSubject{name: kind + "/UnlimitedTTL", make: makeBackendInstTTL(kind, cache.EvictMostExpired, cache.UnlimitedTTL), ops: backendRaceOps()})
	}

	for v, vn := range variantNames {
		subs = append(subs, raceSubject{name: vn, make: makeFailoverInst(v, false), ops: failoverRaceOps()})
	}

	for v, vn := range variantNames {
		subs = append(subs, raceSubject{name: vn + "/SyncRead", make: makeFailoverInst(v, true), ops: failoverRaceOps()})
	}
	subs = append(subs, raceSubject{name: "InvalidationIndex", make: makeIndexInst, ops: indexRaceOps()})
	subs = append(subs, raceSubject{name: "InvalidationIndex/failing-deleter", make: func() *raceInst {
		in := makeIndexInst()
		in.idx.AddCache("default", failingDeleter{})

		return in
	}, ops: indexRaceOps()})
	subs = append(subs, raceSubject{name: "Invalidator", make: makeInvalidatorInst, ops: invalidatorRaceOps()})
	subs = append(subs, raceSubject{name: "Invalidator/default-interval", make: func() *raceInst {
		in := makeInvalidatorInst()
		in.inv.SkipInterval = 0 // the default is filled in lazily by the first Invalidate

		return in
	}, ops: invalidatorRaceOps()})

	return subs
}()

// --- race log handling

var raceLogOffsets = map[string]int64{}

func raceLogPrefix() string {
	for _, f := range strings.Fields(os.Getenv("GORACE")) {
		if strings.HasPrefix(f, "log_path=") {
			return strings.TrimPrefix(f, "log_path=")
		}
	}

	return ""
}

// newRaceReports returns the text appended to the race log since the last call.
func newRaceReports() string {
	prefix := raceLogPrefix()
	if prefix == "" {
		return ""
	}

	files, _ := filepath.Glob(prefix + ".*")
	sort.Strings(files)

	var out strings.Builder

	for _, f := range files {
		b, err := os.ReadFile(f)
		if err != nil {
			continue
		}

		off := raceLogOffsets[f]
		if int64(len(b)) > off {
			out.Write(b[off:])
			raceLogOffsets[f] = int64(len(b))
		}
	}

	return out.String()
}

var raceFrameRe = regexp.MustCompile(`^\s+github\.com/bool64/cache\.(\S+?)\(`)

// raceSignature normalises a report to the pair of library functions that performed the accesses.
func raceSignature(report string) string {
	var (
		fns     []string
		pending bool
	)

	for _, line := range strings.Split(report, "\n") {
		if raceHeaderRe.MatchString(line) {
			if pending {
				fns = append(fns, "?")
			}

			pending = true

			continue
		}

		if strings.HasPrefix(line, "Goroutine ") {
			break
		}

		if !pending {
			continue
		}

		if m := raceFrameRe.FindStringSubmatch(line); m != nil {
			fn := raceGenericRe.ReplaceAllString(m[1], "")
			fn = raceClosureRe.ReplaceAllString(fn, "")
			fns = append(fns, fn)
			pending = false
		}
	}

	if pending {
		fns = append(fns, "?")
	}

	if len(fns) > 2 {
		fns = fns[:2]
	}

	sort.Strings(fns)

	return "race:" + strings.Join(fns, "|")
}

var (
	raceHeaderRe  = regexp.MustCompile(`^(Read|Write|Previous read|Previous write|Atomic \w+|Previous atomic \w+) at 0x[0-9a-f]+ by `)
	raceGenericRe = regexp.MustCompile(`\[[^\]]*\]`)
	raceClosureRe = regexp.MustCompile(`\.func\d+(\.\d+)*$`)
)

// runRaceProgram runs goroutines (one op list each) on fresh instances and reports new races.
func runRaceProgram(c *Case, sub raceSubject, prog [][]int, reps, instances int, gosched []int) {
	for n := 0; n < instances; n++ {
		in := sub.make()

		var (
			wg    sync.WaitGroup
			start = make(chan struct{})
		)

		for g, ops := range prog {
			g, ops := g, ops

			wg.Add(1)

			go func() {
				defer wg.Done()

				<-start

				for i := 0; i < reps; i++ {
					for _, o := range ops {
						sub.ops[o].run(in, g, i)
					}

					if len(gosched) > 0 && gosched[(g+i)%len(gosched)] == 1 {
						time.Sleep(time.Microsecond)
					}
				}
			}()
		}

		close(start)
		wg.Wait()
		in.close()
	}

	if rep := newRaceReports(); strings.Contains(rep, "DATA RACE") {
		first := rep
		if i := strings.Index(rep[10:], "=================="); i > 0 {
			first = rep[:i+10]
		}

		names := []string{}
		for _, ops := range prog {
			var on []string
			for _, o := range ops {
				on = append(on, sub.ops[o].name)
			}

			names = append(names, strings.Join(on, ","))
		}

		c.Tracef("race report:\n%s", first)
		c.Failf(raceSignature(first), "data race while running %s: [%s]\n%s", sub.name, strings.Join(names, " || "), first)
	}
}

// TestC16Pairs enumerates every unordered pair of public operations per subject.
func TestC16Pairs(t *testing.T) {
	if raceLogPrefix() == "" && os.Getenv("VERIF_REPLAY") == "" {
		t.Skip("needs the -race binary with GORACE=log_path=...")
	}

	n, exhausted := runEnum(t, "C16", "C16Pairs", c16aRule, 3, 0, func(c *Case) {
		si := c.Pick("subject", len(raceSubjects))
		sub := raceSubjects[si]
		a := c.Pick("opA", len(sub.ops))
		b := c.Pick("opB", len(sub.ops))

		if b < a {
			return // unordered pairs: (a,b) with a <= b
		}

		c.Class("subject=" + sub.name)
		c.Tracef("%s: %s || %s", sub.name, sub.ops[a].name, sub.ops[b].name)

		if sub.ops[a].mutates || sub.ops[b].mutates {
			c.NonTrivial()
		}

		runRaceProgram(c, sub, [][]int{{a}, {b}}, 30, envInt("VERIF_C16_INSTANCES", 3), nil)
	})
	t.Logf("pairs executed: %d exhausted=%v", n, exhausted)
}

// TestC16Random runs random k-goroutine programs.
func TestC16Random(t *testing.T) {
	if raceLogPrefix() == "" && os.Getenv("VERIF_REPLAY") == "" {
		t.Skip("needs the -race binary with GORACE=log_path=...")
	}

	runCheck(t, "C16", "C16Random", c16bRule, func(c *Case) {
		sub := raceSubjects[c.Pick("subject", len(raceSubjects))]
		ng := c.Int("goroutines", 2, 6)

		var (
			prog    [][]int
			mutates bool
		)

		for g := 0; g < ng; g++ {
			nops := c.Int("nops", 1, 4)

			var ops []int

			for i := 0; i < nops; i++ {
				o := c.Pick("op", len(sub.ops))
				ops = append(ops, o)
				mutates = mutates || sub.ops[o].mutates
			}

			prog = append(prog, ops)
		}

		gosched := []int{c.Int("y0", 0, 1), c.Int("y1", 0, 1), c.Int("y2", 0, 1)}

		c.Class("subject=" + sub.name)

		if ng >= 3 && mutates {
			c.NonTrivial()
		}

		runRaceProgram(c, sub, prog, 20, 2, gosched)
	})
}

const c16cRule = "scale and several instances under the race detector: (a) 6-8 cache instances with memory soft limits whose janitors tick every millisecond for 1.2 s (package-level state shared between instances), " +
	"(b) a ShardedMap / ShardedMapOf with 33000-40000 entries and a count limit whose cleanup cycles run while 2-4 goroutines write new keys; oracle: the race detector's log does not grow; non-trivial = always"

// TestC16Scale: instances side by side and big caches are free of data races as well.
func TestC16Scale(t *testing.T) {
	if raceLogPrefix() == "" && os.Getenv("VERIF_REPLAY") == "" {
		t.Skip("needs the -race binary with GORACE=log_path=...")
	}

	runCheck(t, "C16", "C16Scale", c16cRule, func(c *Case) {
		c.NonTrivial()
		newRaceReports() // start from the current end of the log

		what := ""

		if c.Bool("big-eviction") {
			kind := []string{kindSharded, kindShardedOf}[c.Pick("backend", 2)]
			n := c.Int("entries", 33000, 40000)
			writers := c.Int("writers", 2, 4)
			what = fmt.Sprintf("%s with %d entries: cleanup cycles (eviction) || %d writers of new keys", kind, n, writers)

			be := newBackend(kind, cache.Config{
				TimeToLive: time.Hour, CountSoftLimit: uint64(n - 2000), EvictFraction: 0.1, EvictionStrategy: cache.EvictionStrategy(c.Pick("strategy", 3)),
				DeleteExpiredJobInterval: farFuture, ItemsCountReportInterval: farFuture,
			})

			for i := 0; i < n; i++ {
				_ = be.Write(bg, []byte(fmt.Sprintf("big-%06d", i)), "v")
			}

			var wg sync.WaitGroup

			stop := make(chan struct{})

			for g := 0; g < writers; g++ {
				g := g

				wg.Add(1)

				go func() {
					defer wg.Done()

					for i := 0; ; i++ {
						select {
						case <-stop:
							return
						default:
							_ = be.Write(bg, []byte(fmt.Sprintf("new-%d-%06d", g, i)), "w")
						}
					}
				}()
			}

			for i := 0; i < 3; i++ {
				be.Cleanup()
			}

			close(stop)
			wg.Wait()
			be.Close()
		} else {
			ninst := c.Int("instances", 6, 8)
			what = fmt.Sprintf("%d instances with memory soft limits, janitors ticking every millisecond for 1.2 s", ninst)

			var insts []Backend

			for i := 0; i < ninst; i++ {
				be := newBackend(backendKinds[i%len(backendKinds)], cache.Config{
					TimeToLive: time.Hour, HeapInUseSoftLimit: 1 << 62, SysMemSoftLimit: 1 << 62,
					DeleteExpiredJobInterval: time.Duration(1+i%3) * time.Millisecond, ItemsCountReportInterval: farFuture,
				})
				_ = be.Write(bg, []byte("k"), "v")
				insts = append(insts, be)
			}

			time.Sleep(1200 * time.Millisecond)

			for _, be := range insts {
				be.Close()
			}
		}

		c.Tracef("%s", what)

		if rep := newRaceReports(); strings.Contains(rep, "DATA RACE") {
			c.Failf(raceSignature(rep), "data race while running: %s\n%s", what, firstN(rep, 3000))
		}
	})
}

func firstN(s string, n int) string {
	if len(s) > n {
		return s[:n]
	}

	return s
}
