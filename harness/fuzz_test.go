package harness

import (
	"testing"

	"pgregory.net/rapid"
)

// Native coverage-guided fuzzing (secondary engine, thorough tier): the fuzzer's bytes are the
// bitstream of the same rapid generators, so the oracle is unchanged.

func fuzzProp(prop, check string, fn func(c *Case)) func(*testing.T, []byte) {
	return rapid.MakeFuzz(func(rt *rapid.T) {
		c := newCase(prop, check, rapidChooser{rt}, nil, rt)
		runCase(c, fn)

		if c.fail != nil {
			p := writeReplay(c)
			rt.Fatalf("property %s check %s violated [%s]: %s (replay: %s)", prop, check, c.fail.Sig, c.fail.Msg, p)
		}
	})
}

func FuzzC07BackendModel(f *testing.F) {
	f.Add([]byte{})
	f.Add([]byte("seed-corpus-entry-0123456789abcdef0123456789abcdef0123456789abcdef"))
	f.Fuzz(fuzzProp("C07", "C07BackendModel", propBackendModel))
}

func FuzzC13DumpRestore(f *testing.F) {
	f.Add([]byte{})
	f.Add([]byte("seed-corpus-entry-0123456789abcdef0123456789abcdef0123456789abcdef"))
	f.Fuzz(fuzzProp("C13", "C13DumpRestore", propDumpRestore))
}

func FuzzC10ExpiryBounds(f *testing.F) {
	f.Add([]byte{})
	f.Add([]byte("seed-corpus-entry-0123456789abcdef0123456789abcdef0123456789abcdef"))
	f.Fuzz(fuzzProp("C10", "C10ExpiryBounds", propExpiryBounds))
}
