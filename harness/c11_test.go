package harness

import (
	"bytes"
	"context"
	"errors"
	"math"
	"strings"
	"testing"
	"testing/synctest"
	"time"

	"github.com/bool64/cache"
)

const c11Rule = "stateful on a fake clock, two cycle drivers: (a) the REAL janitor goroutine (its cycles are DeleteExpiredJobInterval i apart, their phase is not assumed) and (b) cycles invoked one by one through the VerifCleanup hook at generated instants (janitor interval out of reach); " +
	"backend x TimeToLive {finite, Unlimited} x DeleteExpiredAfter d (explicit or default 24h) x an eviction limit (heap / sys / count) that is configured but not exceeded when a cycle runs; " +
	"3-25 ops: writes with no/short/long/negative explicit TTL, deletes, ExpireAll (finite TimeToLive only), clock jumps around i and d; " +
	"oracle (b): a cycle at instant t removes exactly {E!=0 and E < t-d}, Len/Walk/Read of every key are compared; with a small CountSoftLimit the count exceeds the limit between cycles (seen by the items-count reporter) but not at a cycle: nothing may be evicted; " +
	"oracle (a): an entry is missing only if E!=0 and E < now-d; an entry with E < now-i-d that was written more than i ago is gone once the cache is older than i (some cycle lies in every window of length i); in between either; " +
	"non-trivial = a cycle / jump removed a long-expired entry while a never-expiring or recently-expired entry was present and had to survive"

// TestC11Janitor: the janitor deletes only entries expired longer than DeleteExpiredAfter.
func TestC11Janitor(t *testing.T) {
	runCheck(t, "C11", "C11Janitor", c11Rule, propJanitor)
}

func propJanitor(c *Case) {
	kind := backendKinds[c.Pick("backend", len(backendKinds))]
	interval := []time.Duration{time.Second, time.Millisecond, time.Minute, time.Hour}[c.Pick("interval", 4)]
	mult := []float64{3, 0.5, 1, 10, 100}[c.Pick("dmult", 5)]
	dea := time.Duration(float64(interval)*mult) + time.Duration(c.Int("dns", 0, 2))
	cfgDea := dea
	hook := c.Weighted("cycle-driver", 1, 1) == 1 // cycles invoked through the hook instead of the real janitor

	// DeleteExpiredAfter left unset means the documented default of 24h (also for UnlimitedTTL caches)
	if interval >= time.Minute && c.Weighted("DeleteExpiredAfter-default", 4, 1) == 1 {
		cfgDea, dea = 0, 24*time.Hour
		c.Class("DeleteExpiredAfter=default")
	}

	ttlMenu := []time.Duration{
		time.Nanosecond, interval / 2, interval, 3 * interval, dea, dea + interval, 100 * interval,
		-time.Nanosecond, -dea, -dea - interval, -dea - 3*interval,
	}

	var cfgTTL time.Duration
	if c.Weighted("cfgTTL", 1, 1) == 0 {
		cfgTTL = cache.UnlimitedTTL
		c.Class("cfg=Unlimited")
	} else {
		cfgTTL = ttlMenu[c.Pick("cfgTTLv", 7)]
		c.Class("cfg=finite")
	}

	jit := -1.0
	if c.Weighted("jitter", 4, 1) == 1 {
		jit = 0.2
	}

	// eviction limits that are configured but not exceeded must not remove anything
	var (
		heapLimit, sysLimit, countLimit uint64
		stats                           cache.StatsTracker
		reportInterval                  time.Duration
	)

	wBetween := 0
	if hook {
		wBetween = 3
	}

	switch c.Weighted("unreached-limit", 4, 1, 1, 1, wBetween) {
	case 4:
		// a count limit that is exceeded between cleanup cycles (and seen exceeded by the items-count
		// reporter of a cache with a stats tracker) but never when a cycle runs
		countLimit = uint64(c.Int("countLimit", 1, 4))
		stats = newCountTracker()
		reportInterval = interval / 4
		c.Class("count-limit-exceeded-only-between-cycles")
	case 1:
		heapLimit = 1 << 62
		c.Class("unreached-heap-limit")
	case 2:
		sysLimit = 1 << 62
		c.Class("unreached-sys-limit")
	case 3:
		countLimit = []uint64{1000, math.MaxUint64, 1 << 63, math.MaxInt64}[c.Pick("huge-count-limit", 4)]
		c.Class("unreached-count-limit")
	}

	c.Class("backend=" + kind)

	if hook {
		c.Class("cycles=hook")
	} else {
		c.Class("cycles=real-janitor")
	}

	c.Tracef("backend=%s TimeToLive=%v DeleteExpiredAfter=%v DeleteExpiredJobInterval=%v (hook-driven cycles=%v) jitter=%v limits heap=%d sys=%d count=%d",
		kind, cfgTTL, dea, interval, hook, jit, heapLimit, sysLimit, countLimit)

	c.Bubble(func() {
		c.SeedJitter()

		t0 := time.Now()
		jobInterval := interval

		if hook {
			jobInterval = 2 * farFuture
		}

		// a logger whose Important level may act on the cache itself (a client reacting to "deleted all entries")
		var onImportant func(msg string)

		be := newCaseBackend(c, kind, cache.Config{
			Logger: hookLogger{onImportant: func(msg string) {
				if onImportant != nil {
					onImportant(msg)
				}
			}},
			TimeToLive: cfgTTL, ExpirationJitter: jit,
			DeleteExpiredJobInterval: jobInterval, DeleteExpiredAfter: cfgDea,
			HeapInUseSoftLimit: heapLimit, SysMemSoftLimit: sysLimit, CountSoftLimit: countLimit,
			Stats: stats, ItemsCountReportInterval: reportInterval,
			EvictFraction: 0.5, // a spurious eviction must be visible with a handful of entries
		})
		d := newMapDriver(c, be, cfgTTL, jit)
		synctest.Wait() // janitor armed its first timer

		writtenAt := map[string]int64{}
		nCycles, nRemoved := 0, 0

		spared := func(now int64) int {
			n := 0

			for _, e := range d.ref.m {
				if e.e == 0 || (e.e < now && e.e >= now-int64(dea)) {
					n++
				}
			}

			return n
		}

		// cycle (hook driver): one cleanup cycle right now; the model removes exactly {E != 0 && E < now-d}.
		cycle := func() {
			// no eviction limit may be exceeded when a cycle runs (the cycle's own deletions come first)
			if stats != nil {
				for _, k := range baseKeys {
					if uint64(len(d.ref.m)) <= countLimit {
						break
					}

					if _, ok := d.ref.m[string(k)]; ok {
						d.del(k)
					}
				}
			}

			now := time.Now().UnixNano()
			be.Cleanup()
			nCycles++

			removed := 0

			for k, e := range d.ref.m {
				if e.e != 0 && e.e < now-int64(dea) {
					delete(d.ref.m, k)
					removed++
				}
			}

			nRemoved += removed

			if removed > 0 && spared(now) > 0 {
				c.NonTrivial()
				c.Class("cycle-removes-and-spares")
			}

			c.Tracef("cleanup cycle at %d: model removes %d long-expired entries", now, removed)
		}

		// reconcile (real janitor): cycles ran at unknown instants <= now, i apart.
		reconcile := func() {
			synctest.Wait() // let the janitor finish every cycle that is due
			now := time.Now().UnixNano()

			present := map[string]bool{}
			_, _ = be.Walk(func(k []byte, _ interface{}, _ time.Time) error {
				present[string(k)] = true

				return nil
			})

			removed := 0

			for k, e := range d.ref.m {
				removable := e.e != 0 && e.e < now-int64(dea)
				mustGo := removable && e.e < now-int64(interval)-int64(dea) && writtenAt[k] <= now-int64(interval) && now >= t0.UnixNano()+int64(interval)

				switch {
				case present[k] && mustGo:
					c.Failf("long-expired-kept", "key %s expired %v ago (DeleteExpiredAfter %v) and was written %v ago, cleanup cycles are %v apart: it must have been removed",
						keyName([]byte(k)), time.Duration(now-e.e), dea, time.Duration(now-writtenAt[k]), interval)
				case !present[k] && removable:
					delete(d.ref.m, k)
					removed++
				}
				// (!present && !removable is reported by compareAll as walk-missing)
			}

			nRemoved += removed

			if removed > 0 && spared(now) > 0 {
				c.NonTrivial()
				c.Class("cycle-removes-and-spares")
			}

			if removed > 0 {
				c.Tracef("by %d the janitor removed %d long-expired entries", now, removed)
			}
		}

		sync := func() {
			if !hook {
				reconcile()
			}
		}

		checkAll := func() {
			sync()
			d.compareAll()

			for _, k := range baseKeys {
				d.read(k, false, false)
			}
		}

		nops := c.Int("nops", 3, 25)
		jumps := 0
		massCase := stats == nil && c.Weighted("mass-case", 7, 1) == 1 // (a small count limit must not be exceeded at a cycle)

		for i := 0; i < nops; i++ {
			wExpireAll := 1 // (also on UnlimitedTTL caches: an expired entry is an expired entry)

			wCycle := 0
			if hook {
				wCycle = 4
			}

			wMass := 0
			if massCase && !d.bulked {
				wMass = 3
			}

			switch c.Weighted("op", 5, 5, 1, 1, wExpireAll, wCycle, wMass, 1, 1) {
			case 8:
				// DeleteAll; while it reports "deleted all entries" a client writes a new entry with an explicit TTL
				sync()

				var (
					lateKey []byte
					lateTTL time.Duration
					lateTok string
				)

				if jit < 0 && c.Bool("write-while-DeleteAll-reports") {
					lateKey, lateTTL = baseKeys[c.Pick("key", len(baseKeys))], ttlMenu[c.Pick("ttl", len(ttlMenu))]
					lateTok = d.token(lateKey)
					onImportant = func(msg string) {
						if strings.HasPrefix(msg, "deleted all") {
							_ = be.Write(ttlCtx(lateTTL), lateKey, lateTok)
						}
					}
				}

				now := time.Now()
				d.deleteAll()
				onImportant = nil

				if lateKey != nil {
					e := d.ref.write(now, lateKey, lateTok, lateTTL)
					_ = e
					writtenAt[string(lateKey)] = now.UnixNano()
					c.Class("write-while-DeleteAll-reports")
				}

				c.Class("deleteall")
			case 7:
				// entries that arrive with their expiry through Restore of another instance's dump
				sync()

				src := newCaseBackend(c, kind, cache.Config{TimeToLive: 1000 * time.Hour, ExpirationJitter: -1, DeleteExpiredJobInterval: 2 * farFuture, DeleteExpiredAfter: 2 * farFuture, ItemsCountReportInterval: farFuture})
				nr := c.Int("restored", 1, 3)
				now := time.Now()

				type rest struct {
					k   []byte
					v   string
					ttl time.Duration
				}

				var rs []rest

				for j := 0; j < nr; j++ {
					r := rest{k: baseKeys[c.Pick("key", len(baseKeys))], ttl: ttlMenu[c.Pick("ttl", len(ttlMenu))]}
					r.v = d.token(r.k)

					// which entry wins when a restored key already exists is not specified: it does not exist
					if _, ok := d.ref.m[string(r.k)]; ok {
						d.del(r.k)
					}

					_ = src.Write(ttlCtx(r.ttl), r.k, r.v)
					rs = append(rs, r)
				}

				var buf bytes.Buffer

				_, derr := src.Dump(&buf)

				// now and then the dump is cut short inside its last records: Restore fails, what it had decoded
				// by then stays (and is subject to the cleanup rules like everything else)
				truncated := c.Weighted("truncated-dump", 3, 1) == 1
				if truncated && buf.Len() > 2 {
					cut := c.Int("cut-bytes", 1, 60)
					if cut >= buf.Len() {
						cut = buf.Len() - 1
					}

					buf.Truncate(buf.Len() - cut)
					c.Class("restore-of-a-truncated-dump")
				}

				_, rerr := be.Restore(&buf)
				c.Assert(derr == nil && (rerr == nil || truncated), "dump-restore-error", "Dump/Restore = %v / %v", derr, rerr)

				arrived := map[string]string{}

				if truncated {
					_, _ = be.Walk(func(k []byte, v interface{}, _ time.Time) error {
						arrived[string(k)] = gstr(v)

						return nil
					})
				}

				for _, r := range rs {
					if truncated && arrived[string(r.k)] != r.v {
						continue
					}

					e := d.ref.write(now, r.k, r.v, r.ttl)
					e.e, e.lo, e.hi, e.settled = now.Add(r.ttl).UnixNano(), 0, 0, true // the source's expiry, no jitter there
					writtenAt[string(r.k)] = now.UnixNano()
				}

				c.Class("entries-arrive-through-Restore")
			case 6:
				// hundreds of entries in ONE shard (next to key "a"), born long-expired, recently expired or fresh
				sync()
				n := []int{70, 300, 400}[c.Pick("mass-n", 3)]
				d.bulk(n, true, []time.Duration{-dea - interval, -dea - 3*interval, -time.Nanosecond, time.Hour}[c.Weighted("mass-ttl", 3, 2, 1, 1)])

				for _, k := range sameShardPool[:n] {
					writtenAt[string(k)] = time.Now().UnixNano()
				}
			case 5:
				cycle()
				checkAll()
			case 4:
				sync()
				d.expireAll()
				d.compareAll() // settles which instant already expired entries carry now
				c.Class("expireall")
			case 0:
				k := baseKeys[c.Pick("key", len(baseKeys))]

				var ttl time.Duration
				if c.Weighted("ttlkind", 2, 3) == 1 {
					ttl = ttlMenu[c.Pick("ttl", len(ttlMenu))]
				}

				sync()
				d.write(k, d.token(k), ttl, false)
				writtenAt[string(k)] = time.Now().UnixNano()
			case 1:
				if jumps >= 8 {
					break
				}

				jumps++

				// the instant where the next cycle of a janitor started at t0 would be (for the hook
				// driver just a convenient grid)
				elapsed := time.Since(t0)
				until := interval - elapsed%interval

				var dur time.Duration

				switch c.Weighted("jump", 2, 3, 2, 2, 1, 1) {
				case 0:
					dur = until - 1
				case 1:
					dur = until
					c.Class("jump-to-grid-exactly")
				case 2:
					dur = until + 1
				case 3:
					dur = until + time.Duration(c.Int("k", 1, 5))*interval
				case 4:
					dur = until + dea + time.Duration(c.Int("ns", 0, 2)) - 1
					c.Class("jump-past-delete-after")
				case 5:
					dur = dea + interval + time.Duration(c.Int("ns", 0, 2)) - 1
				}

				if dur <= 0 {
					dur = 1
				}

				if stats != nil && uint64(len(d.ref.m)) > countLimit {
					c.Class("count-above-limit-while-reporter-ticks")
				}

				time.Sleep(dur)
				c.Tracef("Advance(%v) -> now=%d", dur, time.Now().UnixNano())

				if hook && c.Weighted("cycle-after-jump", 1, 2) == 1 {
					cycle()
				}

				checkAll()
			case 2:
				sync()
				d.del(baseKeys[c.Pick("key", len(baseKeys))])
			case 3:
				checkAll()
			}
		}

		if hook {
			cycle()
		}

		checkAll()

		if nCycles > 0 {
			c.Class("cycles>0")
		}

		if nRemoved > 0 {
			c.Class("removed>0")
		}
	})
}

const c11bRule = "Failover / FailoverOf that create their OWN backend from BackendConfig (TimeToLive, DeleteExpiredAfter d, DeleteExpiredJobInterval i) with MaxStaleness m in {0, < d}: a value is built, the fake clock is advanced past its expiry by an age on either side of d (with janitor ticks in between), then a Get with a failing builder follows; " +
	"oracle: an entry expired less than d ago is still there as stale fallback (the failing Get serves it, FailHard off), an entry expired more than d+i ago is gone (builder error); non-trivial = the age lies between MaxStaleness and DeleteExpiredAfter"

// TestC11FailoverOwnedBackend: recently expired entries survive cleanup as stale fallback for Failover.
func TestC11FailoverOwnedBackend(t *testing.T) {
	runCheck(t, "C11", "C11FailoverOwnedBackend", c11bRule, func(c *Case) {
		generic := c.Bool("generic")
		interval := []time.Duration{time.Minute, time.Second, 10 * time.Minute}[c.Pick("interval", 3)]
		dea := interval * time.Duration(c.Int("d/i", 2, 60))
		ms := []time.Duration{0, dea / 4, dea / 2}[c.Pick("MaxStaleness", 3)]
		ttl := []time.Duration{10 * time.Second, time.Hour}[c.Pick("ttl", 2)]

		var age time.Duration

		switch c.Weighted("age", 3, 1, 1) {
		case 0:
			age = ms + time.Duration(c.Int("between", 1, 99))*(dea-ms)/100
			c.Class("age-between-MaxStaleness-and-DeleteExpiredAfter")
			c.NonTrivial()
		case 1:
			age = time.Duration(c.Int("young", 1, 99)) * (ms + time.Second) / 100
		case 2:
			age = dea + 2*interval + time.Duration(c.Int("old", 0, 10))*interval
			c.Class("age-beyond-DeleteExpiredAfter")
		}

		bcfg := cache.Config{TimeToLive: ttl, ExpirationJitter: -1, DeleteExpiredAfter: dea, DeleteExpiredJobInterval: interval}
		c.Tracef("generic=%v BackendConfig{TimeToLive=%v DeleteExpiredAfter=%v DeleteExpiredJobInterval=%v} MaxStaleness=%v age at the failing Get=%v", generic, ttl, dea, interval, ms, age)

		c.Bubble(func() {
			var fe frontend

			if generic {
				fe = foOf{cache.NewFailoverOf[string](cache.FailoverConfigOf[string]{BackendConfig: bcfg, MaxStaleness: ms, FailedUpdateTTL: -1}.Use)}
			} else {
				fe = foPlain{f: cache.NewFailover(cache.FailoverConfig{BackendConfig: bcfg, MaxStaleness: ms, FailedUpdateTTL: -1}.Use)}
			}

			c.OnClose(1, fe.Close)

			key := []byte("owned")
			v, err := fe.Get(context.Background(), key, func(context.Context) (string, error) { return "v1", nil })
			c.Assert(err == nil && gstr(v) == "v1", "first-build", "first Get = (%v, %v)", v, err)

			time.Sleep(ttl + age)
			synctest.Wait()

			bErr := &buildErr{key: string(key), task: "owned", n: 2}
			v, err = fe.Get(context.Background(), key, func(context.Context) (string, error) { return "", bErr })
			synctest.Wait()
			c.Tracef("failing Get %v after expiry = (%v, %v)", age, v, err)

			switch {
			case age < dea:
				c.Assert(err == nil && gstr(v) == "v1", "stale-fallback-deleted", "entry expired %v ago (DeleteExpiredAfter %v, MaxStaleness %v): failing update returned (%v, %v), want the stale value kept as fallback", age, dea, ms, v, err)
			case age > dea+interval:
				c.Assert(errors.Is(err, bErr), "long-expired-kept", "entry expired %v ago (DeleteExpiredAfter %v + one interval %v): failing update returned (%v, %v), want the builder error because the entry was cleaned up", age, dea, interval, v, err)
			}
		})
	})
}

// hookLogger is sinkLogger with a hook on the Important level.
type hookLogger struct {
	sinkLogger
	onImportant func(msg string)
}

func (h hookLogger) Important(_ context.Context, msg string, _ ...interface{}) { h.onImportant(msg) }
