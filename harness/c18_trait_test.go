package harness

import (
	"context"
	"errors"
	"fmt"
	"sync"
	"sync/atomic"
	"testing"
	"time"

	"github.com/bool64/cache"
)

const c18tRule = "a custom backend built on the exported Trait / TraitOf helpers (PrepareRead, TTL, NotifyWritten, NotifyDeleted, NotifyExpiredAll, NotifyDeletedAll), the way the built-in backends are made: " +
	"TimeToLive default / 10m / Unlimited, jitter off or 0.2, tracker attached through Config.Stats, through Trait.Stat in a constructor option, or decorated in an option; optionally under a Failover / FailoverOf; " +
	"histories of 5-40 writes (no TTL, zero cell, positive, negative), reads (plain, SkipRead), deletes, ExpireAll, DeleteAll, Failover Gets of absent keys and clock jumps; " +
	"oracles: every read equals the reference map with per-entry expiry (value, ErrNotFound, ErrExpired with value and instant; instants inside the jitter band are accepted either way), stored expiry = write instant + context TTL or the configured TimeToLive (C06, C10), " +
	"and at the end hit+miss+expired = non-skipped reads + entries touched by ExpireAll, write = writes, delete = entries removed (C18); non-trivial = at least one bulk operation on a non-empty cache and one read"

// customRW is the harness' view of the two custom backends.
type customRW interface {
	read(ctx context.Context, key []byte) (interface{}, error)
	write(ctx context.Context, key []byte, val string) error
	del(ctx context.Context, key []byte) error
	expireAll(ctx context.Context) int
	deleteAll(ctx context.Context) int
	expiry(key []byte) (int64, bool)
	close()
}

type traitBE struct {
	mu   sync.Mutex
	data map[string]*cache.TraitEntry
	t    *cache.Trait
}

func (b *traitBE) Read(ctx context.Context, key []byte) (interface{}, error) {
	if cache.SkipRead(ctx) {
		return nil, cache.ErrNotFound
	}

	b.mu.Lock()
	e, found := b.data[string(key)]
	b.mu.Unlock()

	return b.t.PrepareRead(ctx, e, found)
}

func (b *traitBE) Write(ctx context.Context, key []byte, value interface{}) error {
	b.mu.Lock()
	defer b.mu.Unlock()

	ttl := b.t.TTL(ctx)
	e := &cache.TraitEntry{K: append([]byte(nil), key...), V: value}

	if ttl != 0 {
		e.E = time.Now().Add(ttl).UnixNano()
	}

	b.data[string(key)] = e
	b.t.NotifyWritten(ctx, key, value, ttl)

	return nil
}

func (b *traitBE) read(ctx context.Context, key []byte) (interface{}, error) { return b.Read(ctx, key) }
func (b *traitBE) write(ctx context.Context, key []byte, val string) error   { return b.Write(ctx, key, val) }

func (b *traitBE) del(ctx context.Context, key []byte) error {
	b.mu.Lock()
	defer b.mu.Unlock()

	if _, found := b.data[string(key)]; !found {
		return cache.ErrNotFound
	}

	delete(b.data, string(key))
	b.t.NotifyDeleted(ctx, key)

	return nil
}

func (b *traitBE) expireAll(ctx context.Context) int {
	start := time.Now()
	cnt := 0

	b.mu.Lock()
	for _, e := range b.data {
		atomic.StoreInt64(&e.E, start.UnixNano())
		cnt++
	}
	b.mu.Unlock()

	b.t.NotifyExpiredAll(ctx, start, cnt)

	return cnt
}

func (b *traitBE) deleteAll(ctx context.Context) int {
	start := time.Now()

	b.mu.Lock()
	cnt := len(b.data)
	b.data = map[string]*cache.TraitEntry{}
	b.mu.Unlock()

	b.t.NotifyDeletedAll(ctx, start, cnt)

	return cnt
}

func (b *traitBE) expiry(key []byte) (int64, bool) {
	b.mu.Lock()
	defer b.mu.Unlock()

	e, ok := b.data[string(key)]
	if !ok {
		return 0, false
	}

	return atomic.LoadInt64(&e.E), true
}

func (b *traitBE) close() { close(b.t.Closed) }

type traitBEOf struct {
	mu   sync.Mutex
	data map[string]*cache.TraitEntryOf[string]
	t    *cache.TraitOf[string]
}

func (b *traitBEOf) Read(ctx context.Context, key []byte) (string, error) {
	if cache.SkipRead(ctx) {
		return "", cache.ErrNotFound
	}

	b.mu.Lock()
	e, found := b.data[string(key)]
	b.mu.Unlock()

	return b.t.PrepareRead(ctx, e, found)
}

func (b *traitBEOf) Write(ctx context.Context, key []byte, value string) error {
	b.mu.Lock()
	defer b.mu.Unlock()

	ttl := b.t.TTL(ctx)
	e := &cache.TraitEntryOf[string]{K: append([]byte(nil), key...), V: value}

	if ttl != 0 {
		e.E = time.Now().Add(ttl).UnixNano()
	}

	b.data[string(key)] = e
	b.t.NotifyWritten(ctx, key, value, ttl)

	return nil
}

func (b *traitBEOf) read(ctx context.Context, key []byte) (interface{}, error) {
	v, err := b.Read(ctx, key)
	if err != nil {
		return nil, err
	}

	return v, nil
}

func (b *traitBEOf) write(ctx context.Context, key []byte, val string) error {
	return b.Write(ctx, key, val)
}

func (b *traitBEOf) del(ctx context.Context, key []byte) error {
	b.mu.Lock()
	defer b.mu.Unlock()

	if _, found := b.data[string(key)]; !found {
		return cache.ErrNotFound
	}

	delete(b.data, string(key))
	b.t.NotifyDeleted(ctx, key)

	return nil
}

func (b *traitBEOf) expireAll(ctx context.Context) int {
	start := time.Now()
	cnt := 0

	b.mu.Lock()
	for _, e := range b.data {
		atomic.StoreInt64(&e.E, start.UnixNano())
		cnt++
	}
	b.mu.Unlock()

	b.t.NotifyExpiredAll(ctx, start, cnt)

	return cnt
}

func (b *traitBEOf) deleteAll(ctx context.Context) int {
	start := time.Now()

	b.mu.Lock()
	cnt := len(b.data)
	b.data = map[string]*cache.TraitEntryOf[string]{}
	b.mu.Unlock()

	b.t.NotifyDeletedAll(ctx, start, cnt)

	return cnt
}

func (b *traitBEOf) expiry(key []byte) (int64, bool) {
	b.mu.Lock()
	defer b.mu.Unlock()

	e, ok := b.data[string(key)]
	if !ok {
		return 0, false
	}

	return atomic.LoadInt64(&e.E), true
}

func (b *traitBEOf) close() { close(b.t.Closed) }

// decoratedTracker forwards to nothing: what it counts is what the backend reported through Trait.Stat.
type decoratedTracker struct {
	inner cache.StatsTracker
	ct    *countTracker
}

func (d decoratedTracker) Add(ctx context.Context, name string, inc float64, lv ...string) {
	d.ct.Add(ctx, name, inc, lv...)

	if d.inner != nil {
		d.inner.Add(ctx, name, inc, lv...)
	}
}

func (d decoratedTracker) Set(ctx context.Context, name string, v float64, lv ...string) {
	d.ct.Set(ctx, name, v, lv...)
}

type tmEntry struct {
	val    string
	lo, hi int64 // expiry band (equal without jitter); 0,0 = never
}

// TestC18TraitBackend: the exported Trait helpers serve a custom backend like they serve the built-in ones.
func TestC18TraitBackend(t *testing.T) {
	runCheck(t, "C18", "C18TraitBackend", c18tRule, func(c *Case) {
		generic := c.Bool("TraitOf")
		ttlCfg := []time.Duration{0, 10 * time.Minute, cache.UnlimitedTTL}[c.Pick("TimeToLive", 3)]
		jitter := []float64{-1, 0.2}[c.Weighted("jitter", 3, 1)]
		attach := c.Pick("tracker-attached-by", 3) // 0 Config.Stats, 1 option sets Trait.Stat, 2 option decorates Config.Stats
		underFailover := c.Weighted("under-failover", 2, 1) == 1
		nops := c.Int("nops", 5, 40)

		effDefault := ttlCfg
		if ttlCfg == 0 {
			effDefault = 5 * time.Minute
		}

		c.Class(fmt.Sprintf("generic=%v", generic))
		c.Class(fmt.Sprintf("tracker-attach-mode=%d", attach))
		c.Tracef("TraitOf=%v TimeToLive=%v jitter=%v tracker attach mode %d, failover on top=%v", generic, ttlCfg, jitter, attach, underFailover)

		c.Bubble(func() {
			ct := newCountTracker()
			cfg := cache.Config{Name: "custom", TimeToLive: ttlCfg, ExpirationJitter: jitter}

			var opts []func(t *cache.Trait)

			switch attach {
			case 0:
				cfg.Stats = ct
			case 1:
				opts = append(opts, func(t *cache.Trait) { t.Stat = ct })
			case 2:
				cfg.Stats = newCountTracker()
				opts = append(opts, func(t *cache.Trait) { t.Stat = decoratedTracker{inner: t.Stat, ct: ct} })
			}

			var (
				be  customRW
				get func(ctx context.Context, key []byte, build func(ctx context.Context) (string, error)) (interface{}, error)
			)

			if generic {
				b := &traitBEOf{data: map[string]*cache.TraitEntryOf[string]{}, t: cache.NewTraitOf[string](cfg, opts...)}
				be = b

				if underFailover {
					f := cache.NewFailoverOf[string](cache.FailoverConfigOf[string]{Backend: b, FailedUpdateTTL: -1}.Use)
					c.OnClose(1, f.VerifClose)

					get = func(ctx context.Context, key []byte, build func(ctx context.Context) (string, error)) (interface{}, error) {
						return f.Get(ctx, key, build)
					}
				}
			} else {
				b := &traitBE{data: map[string]*cache.TraitEntry{}, t: cache.NewTrait(cfg, opts...)}
				be = b

				if underFailover {
					f := cache.NewFailover(cache.FailoverConfig{Backend: b, FailedUpdateTTL: -1}.Use)
					c.OnClose(1, f.VerifClose)

					get = func(ctx context.Context, key []byte, build func(ctx context.Context) (string, error)) (interface{}, error) {
						return f.Get(ctx, key, func(ctx context.Context) (interface{}, error) { return build(ctx) })
					}
				}
			}

			c.OnClose(1, be.close)

			keys := [][]byte{[]byte("a"), []byte("bb"), []byte("c\x00c"), []byte("dddddddddddddddd")}
			model := map[string]*tmEntry{}

			var reads, writes, removed, touched, bulk int

			nval := 0

			band := func(now time.Time, ttl time.Duration) (int64, int64) {
				if jitter <= 0 {
					e := now.Add(ttl).UnixNano()

					return e, e
				}

				a := now.Add(time.Duration(float64(ttl) * (1 - jitter/2))).UnixNano()
				b := now.Add(time.Duration(float64(ttl) * (1 + jitter/2))).UnixNano()

				if a > b {
					a, b = b, a
				}

				// floating point rounding of the library's own computation
				return a - 1000, b + 1000
			}

			modelWrite := func(key []byte, val string, ctxTTL time.Duration) {
				e := &tmEntry{val: val}
				ttl := ctxTTL

				if ttl == 0 {
					if ttlCfg == cache.UnlimitedTTL {
						ttl = 0
					} else {
						ttl = effDefault
					}
				}

				if ttl != 0 {
					e.lo, e.hi = band(time.Now(), ttl)
				}

				model[string(key)] = e

				got, ok := be.expiry(key)
				c.Assert(ok, "write-lost", "key %s is not in the backend after it was written", keyName(key))

				if ttl == 0 {
					c.Assert(got == 0, "store-ttl", "key %s written without TTL into an UnlimitedTTL backend expires at %d", keyName(key), got)
				} else {
					c.Assert(got >= e.lo && got <= e.hi, "store-ttl", "key %s written at %d with context TTL %v (TimeToLive %v, jitter %v) expires at %d = +%v, want within [+%v, +%v]",
						keyName(key), time.Now().UnixNano(), ctxTTL, ttlCfg, jitter, got, time.Duration(got-time.Now().UnixNano()), time.Duration(e.lo-time.Now().UnixNano()), time.Duration(e.hi-time.Now().UnixNano()))
					// from now on the model knows the instant exactly
					e.lo, e.hi = got, got
				}
			}

			ttlMenu := []time.Duration{0, 0, time.Hour, 30 * time.Second, -time.Second}

			for i := 0; i < nops; i++ {
				wGet := 0
				if get != nil {
					wGet = 2
				}

				switch op := c.Weighted("op", 5, 6, 2, 1, 1, 2, wGet); op {
				case 0: // write
					key := keys[c.Pick("key", len(keys))]
					ti := c.Pick("ttl", len(ttlMenu))
					ctx := bg

					if ti > 0 {
						ctx = cache.WithTTL(bg, ttlMenu[ti], false)
					}

					nval++
					val := fmt.Sprintf("v%d", nval)

					c.Tracef("op %d: Write(%s, %s) ttl=%v (cell=%v)", i, keyName(key), val, ttlMenu[ti], ti > 0)
					c.Assert(be.write(ctx, key, val) == nil, "write-error", "Write failed")
					writes++
					modelWrite(key, val, ttlMenu[ti])
				case 1: // read
					key := keys[c.Pick("key", len(keys))]
					skip := c.Weighted("skipread", 6, 1) == 1
					ctx := bg

					if skip {
						ctx = cache.WithSkipRead(bg)
					} else {
						reads++
					}

					v, err := be.read(ctx, key)
					now := time.Now().UnixNano()
					e := model[string(key)]

					c.Tracef("op %d: Read(%s) skip=%v = (%v, %v)", i, keyName(key), skip, v, err)

					switch {
					case skip || e == nil:
						c.Assert(errors.Is(err, cache.ErrNotFound) && v == nil, "read-mismatch", "Read(%s) skip=%v of a key the model does not hold = (%v, %v), want ErrNotFound", keyName(key), skip, v, err)
					case e.lo == 0 || now < e.lo:
						c.Assert(err == nil && gstr(v) == e.val, "read-mismatch", "Read(%s) of a fresh entry = (%v, %v), want %s", keyName(key), v, err, e.val)
					default:
						// at the expiry instant itself (or inside the jitter band) either outcome is allowed
						if now <= e.hi && err == nil {
							c.Assert(gstr(v) == e.val, "read-mismatch", "Read(%s) at its expiry instant = (%v, %v), want %s or ErrExpired", keyName(key), v, err, e.val)

							break
						}

						var (
							ee    cache.ErrWithExpiredItem
							eeOf  cache.ErrWithExpiredItemOf[string]
							isExp bool
							expV  interface{}
							expAt time.Time
						)

						if errors.As(err, &ee) {
							isExp, expV, expAt = true, ee.Value(), ee.ExpiredAt()
						} else if errors.As(err, &eeOf) {
							isExp, expV, expAt = true, eeOf.Value(), eeOf.ExpiredAt()
						}

						c.Assert(isExp && errors.Is(err, cache.ErrExpired), "read-mismatch", "Read(%s) of an entry expired at %d (now %d) = (%v, %v), want ErrExpired", keyName(key), e.hi, now, v, err)
						c.Assert(gstr(expV) == e.val, "expired-value", "ErrExpired for %s carries %v, want %s", keyName(key), expV, e.val)
						c.Assert(expAt.UnixNano() >= e.lo && expAt.UnixNano() <= e.hi, "expired-at", "ErrExpired for %s carries instant %d, want %d", keyName(key), expAt.UnixNano(), e.lo)
					}
				case 2: // delete
					key := keys[c.Pick("key", len(keys))]
					err := be.del(bg, key)

					c.Tracef("op %d: Delete(%s) = %v", i, keyName(key), err)

					if model[string(key)] != nil {
						c.Assert(err == nil, "delete-mismatch", "Delete(%s) of a present key = %v", keyName(key), err)
						removed++
						delete(model, string(key))
					} else {
						c.Assert(errors.Is(err, cache.ErrNotFound), "delete-mismatch", "Delete(%s) of a missing key = %v", keyName(key), err)
					}
				case 3: // ExpireAll
					n := be.expireAll(bg)
					c.Tracef("op %d: ExpireAll = %d", i, n)

					touched += len(model)

					if len(model) > 0 {
						bulk++
					}

					now := time.Now().UnixNano()
					for _, e := range model {
						e.lo, e.hi = now, now
					}
				case 4: // DeleteAll
					n := be.deleteAll(bg)
					c.Tracef("op %d: DeleteAll = %d", i, n)

					removed += len(model)

					if len(model) > 0 {
						bulk++
					}

					model = map[string]*tmEntry{}
				case 5:
					d := []time.Duration{time.Nanosecond, time.Second, time.Minute, 5 * time.Minute, 10 * time.Minute, time.Hour}[c.Pick("clock", 6)]
					c.Tracef("op %d: clock +%v", i, d)
					time.Sleep(d)
				case 6: // Get through the frontend for a key the backend does not hold: one miss, one build, one write
					var absent [][]byte

					for _, k := range keys {
						if model[string(k)] == nil {
							absent = append(absent, k)
						}
					}

					if len(absent) == 0 {
						continue
					}

					key := absent[c.Pick("absent-key", len(absent))]
					ti := c.Pick("ttl", 3)
					ctx := bg

					if ti > 0 {
						ctx = cache.WithTTL(bg, ttlMenu[ti], false)
					}

					nval++
					val := fmt.Sprintf("built%d", nval)
					v, err := get(ctx, append([]byte{}, key...), func(context.Context) (string, error) { return val, nil })

					c.Tracef("op %d: Failover.Get(%s) ttl=%v = (%v, %v)", i, keyName(key), ttlMenu[ti], v, err)
					c.Assert(err == nil && gstr(v) == val, "get-mismatch", "Get(%s) on an absent key = (%v, %v), want the built value %s", keyName(key), v, err, val)
					c.Class("built-through-failover")

					reads++
					writes++
					modelWrite(key, val, ttlMenu[ti])
				}
			}

			if bulk > 0 && reads > 0 {
				c.NonTrivial()
			}

			got := func(m string) int { return int(ct.get("custom", m)) }
			sumReads := got(cache.MetricHit) + got(cache.MetricMiss) + got(cache.MetricExpired)

			c.Tracef("model: reads=%d touched-by-ExpireAll=%d writes=%d removed=%d; tracker: hit=%d miss=%d expired=%d write=%d delete=%d",
				reads, touched, writes, removed, got(cache.MetricHit), got(cache.MetricMiss), got(cache.MetricExpired), got(cache.MetricWrite), got(cache.MetricDelete))

			c.Assert(sumReads == reads+touched, "read-metrics", "cache_hit+cache_miss+cache_expired = %d, want %d non-skipped reads + %d entries touched by ExpireAll", sumReads, reads, touched)
			c.Assert(got(cache.MetricWrite) == writes, "write-metric", "cache_write = %d, want %d", got(cache.MetricWrite), writes)
			c.Assert(got(cache.MetricDelete) == removed, "delete-metric", "cache_delete = %d, want %d", got(cache.MetricDelete), removed)
		})
	})
}
