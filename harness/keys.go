package harness

import (
	"bytes"
	"encoding/binary"
	"fmt"
	"math/bits"

	"github.com/cespare/xxhash/v2"
)

const nShards = 128

// baseKeys is the small key alphabet: empty, short, binary, shared prefixes, long, and keys that
// land in the same shard as "a" (different 64-bit hash) for lock contention.
var baseKeys = func() [][]byte {
	long := bytes.Repeat([]byte("L0123456789"), 28)[:300]
	ks := [][]byte{
		[]byte("a"), []byte(""), []byte("b"), []byte("ab"), []byte("a\x00"), {0xff, 0xfe, 0x00, 0x01}, long,
	}

	target := xxhash.Sum64([]byte("a")) % nShards
	found := 0

	for i := 0; found < 2; i++ {
		k := []byte(fmt.Sprintf("s%d", i))
		if xxhash.Sum64(k)%nShards == target {
			ks = append(ks, k)
			found++
		}
	}

	return ks
}()

func keyName(k []byte) string {
	if len(k) > 12 {
		return fmt.Sprintf("%q..(%d)", k[:8], len(k))
	}

	return fmt.Sprintf("%q", k)
}

// ---------------------------------------------------------------------------------------------
// Constructed xxhash64 collisions (DESIGN §4.6).

const (
	xxP1 uint64 = 11400714785074694791
	xxP2 uint64 = 14029467366897019727
)

func modInv(a uint64) uint64 {
	// Newton iteration for the inverse of an odd number modulo 2^64.
	x := a
	for i := 0; i < 6; i++ {
		x *= 2 - a*x
	}

	return x
}

var (
	xxP1Inv = modInv(xxP1)
	xxP2Inv = modInv(xxP2)
)

func xxRound(acc, input uint64) uint64 {
	acc += input * xxP2
	acc = bits.RotateLeft64(acc, 31)
	acc *= xxP1

	return acc
}

func xxSeed(lane int) uint64 {
	p1, p2 := xxP1, xxP2

	switch lane {
	case 0:
		return p1 + p2
	case 1:
		return p2
	case 2:
		return 0
	default:
		return -p1
	}
}

// collide returns a key of the same length with the same xxhash64 as key (len(key) >= 64),
// differing in words lane and lane+4 (stripes 0 and 1); newA0 is the replacement for the
// lane's word in stripe 0.
func collide(key []byte, lane int, newA0 uint64) []byte {
	if len(key) < 64 {
		panic("collide needs >= 64 bytes")
	}

	a0 := binary.LittleEndian.Uint64(key[8*lane:])
	a1 := binary.LittleEndian.Uint64(key[32+8*lane:])
	seed := xxSeed(lane)
	target := xxRound(xxRound(seed, a0), a1)

	// target = rotl31(round(seed,newA0) + a1*·P2)·P1  =>  a1* = (rotr31(target·P1⁻¹) − round(seed,newA0))·P2⁻¹
	mid := bits.RotateLeft64(target*xxP1Inv, -31)
	newA1 := (mid - xxRound(seed, newA0)) * xxP2Inv

	out := make([]byte, len(key))
	copy(out, key)
	binary.LittleEndian.PutUint64(out[8*lane:], newA0)
	binary.LittleEndian.PutUint64(out[32+8*lane:], newA1)

	if xxhash.Sum64(out) != xxhash.Sum64(key) {
		panic("collision construction failed")
	}

	return out
}

// sameShardPool holds keys that live in the same one of the library's 128 shards as "a"
// (shard = xxhash64 % 128 in the current code; if that ever changes the keys are merely ordinary).
var sameShardPool = func() [][]byte {
	want := xxhash.Sum64([]byte("a")) % 128

	var out [][]byte

	for i := 0; len(out) < 4300; i++ {
		k := []byte(fmt.Sprintf("m%06d", i))
		if xxhash.Sum64(k)%128 == want {
			out = append(out, k)
		}
	}

	return out
}()

// partialPairs are pairs of DIFFERENT keys whose 64-bit hashes differ but agree in part: the first
// pair in the upper 32 bits and in the shard (hash % 128), the second in the lower 32 bits, the
// third in the upper 32 bits. They are two independent keys for any correct backend (found by a
// birthday search, verified at start-up).
var partialPairs = func() [][2][]byte {
	pairs := [][2][]byte{
		{[]byte("user:672014"), []byte("user:883637")},
		{[]byte("item:48569"), []byte("item:67349")},
		{[]byte("acct:61594"), []byte("acct:70566")},
	}
	rel := []func(a, b uint64) bool{
		func(a, b uint64) bool { return a>>32 == b>>32 && a%128 == b%128 },
		func(a, b uint64) bool { return uint32(a) == uint32(b) },
		func(a, b uint64) bool { return a>>32 == b>>32 },
	}

	for i, p := range pairs {
		a, b := xxhash.Sum64(p[0]), xxhash.Sum64(p[1])
		if a == b || !rel[i](a, b) {
			panic(fmt.Sprintf("partialPairs[%d] does not have the intended hash relation", i))
		}
	}

	return pairs
}()

var neighbourCache = map[string][]byte{}

// shardNeighbour returns the j-th of some other keys that live in the same one of the library's 128
// shards as key (shard = xxhash64 % 128 in the current code; otherwise they are merely other keys).
func shardNeighbour(key []byte, j int) []byte {
	id := fmt.Sprintf("%x/%d", key, j)
	if nb, ok := neighbourCache[id]; ok {
		return nb
	}

	want := xxhash.Sum64(key) % nShards
	found := 0

	for i := 0; ; i++ {
		nb := []byte(fmt.Sprintf("neighbour-%d", i))
		if xxhash.Sum64(nb)%nShards == want && !bytes.Equal(nb, key) {
			if found == j {
				neighbourCache[id] = nb

				return nb
			}

			found++
		}
	}
}

var (
	sameShardFillPool [][]byte
	sameShardFillNext int
)

// sameShardFill returns n keys with the prefix "fill-" that live in the shard of "a".
func sameShardFill(n int) [][]byte {
	want := xxhash.Sum64([]byte("a")) % nShards

	for ; len(sameShardFillPool) < n; sameShardFillNext++ {
		k := []byte(fmt.Sprintf("fill-s%07d", sameShardFillNext))
		if xxhash.Sum64(k)%nShards == want {
			sameShardFillPool = append(sameShardFillPool, k)
		}
	}

	return sameShardFillPool[:n]
}
