package harness

import (
	"context"
	"errors"
	"io"
	"time"

	"github.com/bool64/cache"
)

// Backend is a uniform view of the three backend implementations. Values are `interface{}`
// for ShardedMap/SyncMap and `string` for ShardedMapOf[string] (zero value "").
type Backend interface {
	Kind() string
	Generic() bool
	Read(ctx context.Context, key []byte) readResult
	Write(ctx context.Context, key []byte, val interface{}) error
	Delete(ctx context.Context, key []byte) error
	ExpireAll(ctx context.Context)
	DeleteAll(ctx context.Context)
	Len() int
	Walk(fn func(key []byte, val interface{}, exp time.Time) error) (int, error)
	HasLoadStore() bool
	Load(key []byte) (interface{}, bool)
	Store(key []byte, val interface{})
	Dump(w io.Writer) (int, error)
	Restore(r io.Reader) (int, error)
	Cleanup()
	Close()
	Index() *cache.InvalidationIndex
	Deleter() cache.Deleter
	Raw() interface{}
}

// readResult is a normalised Read outcome.
type readResult struct {
	Val     interface{}
	Err     error
	Expired bool        // err carries an expired item
	ExpVal  interface{} // value carried by the expiry error
	ExpAt   time.Time   // instant carried by the expiry error
}

const (
	kindSharded   = "ShardedMap"
	kindSync      = "SyncMap"
	kindShardedOf = "ShardedMapOf"
)

var backendKinds = []string{kindSharded, kindSync, kindShardedOf}

func newBackend(kind string, cfg cache.Config) Backend {
	switch kind {
	case kindSharded:
		return &shardedBE{c: cache.NewShardedMap(cfg.Use)}
	case kindSync:
		return &syncBE{c: cache.NewSyncMap(cfg.Use)}
	case kindShardedOf:
		return &shardedOfBE{c: cache.NewShardedMapOf[string](cfg.Use)}
	}

	panic("unknown backend kind " + kind)
}

// newCaseBackend creates a backend closed at the end of the case.
func newCaseBackend(c *Case, kind string, cfg cache.Config) Backend {
	b := newBackend(kind, cfg)
	c.OnClose(1, b.Close)

	return b
}

// normExp maps "no expiration" to the unix epoch whatever the library reports for it (the zero
// time.Time or time.Unix(0,0)): what ExpireAt returns for a never-expiring entry is not specified.
func normExp(t time.Time) time.Time {
	if t.IsZero() || t.UnixNano() == 0 {
		return time.Unix(0, 0)
	}

	return t
}

func normRead(v interface{}, err error) readResult {
	r := readResult{Val: v, Err: err}

	if err != nil {
		r.Val = nil

		var ee cache.ErrWithExpiredItem
		if errors.As(err, &ee) {
			r.Expired = true
			r.ExpVal = ee.Value()
			r.ExpAt = ee.ExpiredAt()
		}
	}

	return r
}

// --- ShardedMap

type shardedBE struct{ c *cache.ShardedMap }

func (b *shardedBE) Kind() string                                  { return kindSharded }
func (b *shardedBE) Generic() bool                                 { return false }
func (b *shardedBE) Read(ctx context.Context, k []byte) readResult { return normRead(b.c.Read(ctx, k)) }
func (b *shardedBE) Write(ctx context.Context, k []byte, v interface{}) error {
	return b.c.Write(ctx, k, v)
}
func (b *shardedBE) Delete(ctx context.Context, k []byte) error { return b.c.Delete(ctx, k) }
func (b *shardedBE) ExpireAll(ctx context.Context)              { b.c.ExpireAll(ctx) }
func (b *shardedBE) DeleteAll(ctx context.Context)              { b.c.DeleteAll(ctx) }
func (b *shardedBE) Len() int                                   { return b.c.Len() }
func (b *shardedBE) Walk(fn func(key []byte, val interface{}, exp time.Time) error) (int, error) {
	return b.c.Walk(func(e cache.Entry) error { return fn(e.Key(), e.Value(), normExp(e.ExpireAt())) })
}
func (b *shardedBE) HasLoadStore() bool                { return true }
func (b *shardedBE) Load(k []byte) (interface{}, bool) { return b.c.Load(k) }
func (b *shardedBE) Store(k []byte, v interface{})     { b.c.Store(k, v) }
func (b *shardedBE) Dump(w io.Writer) (int, error)     { return b.c.Dump(w) }
func (b *shardedBE) Restore(r io.Reader) (int, error)  { return b.c.Restore(r) }
func (b *shardedBE) Cleanup()                          { b.c.VerifCleanup() }
func (b *shardedBE) Close()                            { b.c.VerifClose() }
func (b *shardedBE) Index() *cache.InvalidationIndex   { return b.c.InvalidationIndex }
func (b *shardedBE) Deleter() cache.Deleter            { return b.c }
func (b *shardedBE) Raw() interface{}                  { return b.c }

// --- SyncMap

type syncBE struct{ c *cache.SyncMap }

func (b *syncBE) Kind() string                                  { return kindSync }
func (b *syncBE) Generic() bool                                 { return false }
func (b *syncBE) Read(ctx context.Context, k []byte) readResult { return normRead(b.c.Read(ctx, k)) }
func (b *syncBE) Write(ctx context.Context, k []byte, v interface{}) error {
	return b.c.Write(ctx, k, v)
}
func (b *syncBE) Delete(ctx context.Context, k []byte) error { return b.c.Delete(ctx, k) }
func (b *syncBE) ExpireAll(ctx context.Context)              { b.c.ExpireAll(ctx) }
func (b *syncBE) DeleteAll(ctx context.Context)              { b.c.DeleteAll(ctx) }
func (b *syncBE) Len() int                                   { return b.c.Len() }
func (b *syncBE) Walk(fn func(key []byte, val interface{}, exp time.Time) error) (int, error) {
	return b.c.Walk(func(e cache.Entry) error { return fn(e.Key(), e.Value(), normExp(e.ExpireAt())) })
}
func (b *syncBE) HasLoadStore() bool               { return false }
func (b *syncBE) Load([]byte) (interface{}, bool)  { panic("no Load") }
func (b *syncBE) Store([]byte, interface{})        { panic("no Store") }
func (b *syncBE) Dump(w io.Writer) (int, error)    { return b.c.Dump(w) }
func (b *syncBE) Restore(r io.Reader) (int, error) { return b.c.Restore(r) }
func (b *syncBE) Cleanup()                         { b.c.VerifCleanup() }
func (b *syncBE) Close()                           { b.c.VerifClose() }
func (b *syncBE) Index() *cache.InvalidationIndex  { return b.c.InvalidationIndex }
func (b *syncBE) Deleter() cache.Deleter           { return b.c }
func (b *syncBE) Raw() interface{}                 { return b.c }

// --- ShardedMapOf[string]

type shardedOfBE struct{ c *cache.ShardedMapOf[string] }

func (b *shardedOfBE) Kind() string  { return kindShardedOf }
func (b *shardedOfBE) Generic() bool { return true }

func (b *shardedOfBE) Read(ctx context.Context, k []byte) readResult {
	v, err := b.c.Read(ctx, k)
	r := readResult{Val: v, Err: err}

	if err != nil {
		// The returned value must be the zero value next to an error; keep it for the oracle.
		var ee cache.ErrWithExpiredItemOf[string]
		if errors.As(err, &ee) {
			r.Expired = true
			r.ExpVal = ee.Value()
			r.ExpAt = ee.ExpiredAt()
		}
	}

	return r
}

func gstr(v interface{}) string {
	if v == nil {
		return ""
	}

	return v.(string)
}

func (b *shardedOfBE) Write(ctx context.Context, k []byte, v interface{}) error {
	return b.c.Write(ctx, k, gstr(v))
}
func (b *shardedOfBE) Delete(ctx context.Context, k []byte) error { return b.c.Delete(ctx, k) }
func (b *shardedOfBE) ExpireAll(ctx context.Context)              { b.c.ExpireAll(ctx) }
func (b *shardedOfBE) DeleteAll(ctx context.Context)              { b.c.DeleteAll(ctx) }
func (b *shardedOfBE) Len() int                                   { return b.c.Len() }
func (b *shardedOfBE) Walk(fn func(key []byte, val interface{}, exp time.Time) error) (int, error) {
	return b.c.Walk(func(e cache.EntryOf[string]) error { return fn(e.Key(), e.Value(), normExp(e.ExpireAt())) })
}
func (b *shardedOfBE) HasLoadStore() bool                { return true }
func (b *shardedOfBE) Load(k []byte) (interface{}, bool) { return b.c.Load(k) }
func (b *shardedOfBE) Store(k []byte, v interface{})     { b.c.Store(k, gstr(v)) }
func (b *shardedOfBE) Dump(w io.Writer) (int, error)     { return b.c.Dump(w) }
func (b *shardedOfBE) Restore(r io.Reader) (int, error)  { return b.c.Restore(r) }
func (b *shardedOfBE) Cleanup()                          { b.c.VerifCleanup() }
func (b *shardedOfBE) Close()                            { b.c.VerifClose() }
func (b *shardedOfBE) Index() *cache.InvalidationIndex   { return b.c.InvalidationIndex }
func (b *shardedOfBE) Deleter() cache.Deleter            { return b.c }
func (b *shardedOfBE) Raw() interface{}                  { return b.c }

// poisonKey returns a fresh copy of key for one library call and a function that overwrites
// the copy afterwards (poison-after-use: any retained reference shows up as a model mismatch).
func poisonKey(key []byte) ([]byte, func()) {
	k := make([]byte, len(key))
	copy(k, key)

	return k, func() {
		for i := range k {
			k[i] = 0xAA
		}
	}
}
