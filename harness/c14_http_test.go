package harness

import (
	"fmt"
	"net/http/httptest"
	"strings"
	"testing"
	"time"

	"github.com/bool64/cache"
)

const c14hRule = "REAL HTTP round trip (httptest server on the loopback interface, the importer's default transport, outside a bubble): 1-2 named caches per side (ShardedMap / SyncMap / ShardedMapOf[string]), " +
	"3 .. 4000 entries with values of 20-400 bytes (dumps from below one read buffer to about a megabyte), generated TTLs; oracle: after Import the importer's caches hold exactly the exporter's entries (key, value, expiry); " +
	"non-trivial = a dump larger than 64 KiB"

// TestC14RealHTTP: what goes over a real connection arrives completely.
func TestC14RealHTTP(t *testing.T) {
	runCheck(t, "C14", "C14RealHTTP", c14hRule, func(c *Case) {
		families := []string{kindSharded, kindSync, "Of[string]"}
		ncaches := c.Int("caches", 1, 2)
		exp := &cache.HTTPTransfer{}
		imp := &cache.HTTPTransfer{}

		type pair struct {
			name     string
			src, dst dumpCache
		}

		var (
			pairs []pair
			total int
		)

		for i := 0; i < ncaches; i++ {
			fam := families[c.Pick("family", len(families))]
			n := []int{3, 40, 400, 4000}[c.Weighted("entries", 2, 2, 2, 1)]
			vlen := c.Int("value-bytes", 20, 400)
			p := pair{name: fmt.Sprintf("cache-%d", i), src: newDumpCache(c, fam), dst: newDumpCache(c, fam)}

			for j := 0; j < n; j++ {
				ttl := []time.Duration{0, 5 * time.Minute, time.Hour, -3 * time.Minute}[c.Pick("ttl", 4)]
				if j > 20 {
					ttl = []time.Duration{0, time.Hour}[j%2] // keep the choice sequence short
				}

				v := fmt.Sprintf("%05d:", j) + strings.Repeat("x", vlen)
				p.src.put([]byte(fmt.Sprintf("key-%d-%05d", i, j)), v, ttl)
				total += len(v) + 20
			}

			exp.AddCache(p.name, p.src.wdr())
			imp.AddCache(p.name, p.dst.wdr())
			pairs = append(pairs, p)
			c.Tracef("%s: %s with %d entries of %d-byte values", p.name, fam, n, vlen+6)
		}

		if total > 64<<10 {
			c.Class("dump>64KiB")
			c.NonTrivial()
		}

		srv := httptest.NewServer(exp.Export())
		c.OnClose(0, srv.Close)

		err := imp.Import(bg, srv.URL)
		c.Assert(err == nil, "import-error", "Import over a real connection returned %v", err)

		for _, p := range pairs {
			ok, diff := rowsEqual(false, p.src.rows(), p.dst.rows())
			c.Assert(ok, "transfer-differs", "cache %q after Import over a real connection differs from the exporter's: %s", p.name, diff)
		}
	})
}
