package harness

import (
	"fmt"
	"os"
	"runtime"
	"sync/atomic"
	"testing"
	"time"
)

// TestMain starts the real-time watchdog (outside any bubble), runs the selected checks and
// writes the evidence counters collected by them.
func TestMain(m *testing.M) {
	if os.Getenv("VERIF_CHILD") == "late" {
		childLateMain()

		return
	}

	if os.Getenv("VERIF_CHILD") != "" {
		childMain()

		return
	}

	registerGobTypes()

	go watchdog()

	code := m.Run()

	writeStats()
	os.Exit(code)
}

// watchdog turns a hang (e.g. a bubble goroutine durably blocked while holding a contended
// mutex) into exit status 3 = inconclusive, never into a verdict.
func watchdog() {
	limit := 120 * time.Second
	last := atomic.LoadInt64(&progress)
	lastChange := time.Now()

	for {
		time.Sleep(time.Second)

		cur := atomic.LoadInt64(&progress)
		if cur != last {
			last = cur
			lastChange = time.Now()

			continue
		}

		if time.Since(lastChange) > limit {
			buf := make([]byte, 1<<20)
			n := runtime.Stack(buf, true)
			fmt.Fprintf(os.Stderr, "WATCHDOG: no progress for %v\n%s\n", limit, buf[:n])
			writeStats()
			os.Exit(3)
		}
	}
}

func envInt(name string, def int) int {
	v := os.Getenv(name)
	if v == "" {
		return def
	}

	n := 0
	_, err := fmt.Sscanf(v, "%d", &n)
	if err != nil {
		return def
	}

	return n
}

func thorough() bool { return os.Getenv("VERIF_TIER") == "thorough" }
