package harness

import (
	"context"
	"errors"
	"runtime"
	"sort"
	"sync"
	"sync/atomic"
	"testing"
	"testing/synctest"
	"time"

	"github.com/bool64/cache"
)

const c17Rule = "fake clock: SkipInterval in {0 (default 15s), 1ns..1h, negative}, 0-4 callbacks (nil or empty list when 0), 1-12 callers each sleeping to a generated instant (many share an instant => real contention on the mutex), instants on both sides of SkipInterval including +/-1ns; " +
	"oracle (exact): per instant in time order exactly one call is accepted iff no accepted call lies less than SkipInterval before it (all calls when SkipInterval<0), every accepted call runs every callback exactly once in registration order, runs never interleave (in-flight <= 1), " +
	"a rejected call ran nothing and returns ErrAlreadyInvalidated, no callbacks => ErrNothingToInvalidate; non-trivial = >=2 callers share an instant or a call lands within 1ns of the interval boundary"

// TestC17Invalidator: Invalidator runs all callbacks, at most once per SkipInterval.
func TestC17Invalidator(t *testing.T) {
	runCheck(t, "C17", "C17Invalidator", c17Rule, propInvalidator)
}

type cbEvent struct {
	caller int
	index  int
	at     int64
}

func propInvalidator(c *Case) {
	skip := []time.Duration{0, time.Second, time.Nanosecond, 2 * time.Nanosecond, time.Hour, -1, -time.Hour}[c.Pick("SkipInterval", 7)]
	eff := skip
	if eff == 0 {
		eff = 15 * time.Second
	}

	ncb := c.Int("callbacks", 0, 4)
	emptyList := ncb == 0 && c.Bool("empty-non-nil")
	ncallers := c.Int("callers", 1, 12)

	// caller instants: cumulative offsets from a menu around the interval
	menu := []time.Duration{0, 0, time.Nanosecond, eff - 1, eff, eff + 1, eff / 2, 2 * eff, 3 * time.Second}
	offsets := make([]time.Duration, ncallers)
	cur := time.Duration(0)

	for i := range offsets {
		d := menu[c.Pick("gap", len(menu))]
		if d < 0 {
			d = 0
		}

		if d == 0 && i > 0 {
			c.Class("shared-instant")
			c.NonTrivial()
		}

		if eff > 0 && (d == eff-1 || d == eff || d == eff+1) {
			c.Class("boundary-gap")
			c.NonTrivial()
		}

		cur += d
		offsets[i] = cur
	}

	// caller contexts: 0 background, 1 cancelled before the call, 2 cancelled by callback #cancelAt while it runs
	ctxMode := make([]int, ncallers)
	cancelAt := make([]int, ncallers)

	for i := range ctxMode {
		ctxMode[i] = c.Weighted("ctx", 4, 1, 1)
		if ctxMode[i] == 2 && ncb > 0 {
			cancelAt[i] = c.Pick("cancel-at", ncb)
		}

		if ctxMode[i] != 0 {
			c.Class("cancelled-context")
		}
	}

	c.Tracef("SkipInterval=%v callbacks=%d (empty list=%v) caller offsets=%v ctx modes=%v", skip, ncb, emptyList, offsets, ctxMode)

	c.Bubble(func() {
		inv := &cache.Invalidator{SkipInterval: skip}

		var (
			mu       sync.Mutex
			events   []cbEvent
			inflight int32
			overlap  int32
		)

		curCaller := map[int64]int{}
		cancels := map[int]context.CancelFunc{}

		if emptyList {
			inv.Callbacks = []func(context.Context){}
		}

		for j := 0; j < ncb; j++ {
			j := j
			inv.Callbacks = append(inv.Callbacks, func(ctx context.Context) {
				if atomic.AddInt32(&inflight, 1) > 1 {
					atomic.StoreInt32(&overlap, 1)
				}

				mu.Lock()
				who := curCaller[curGoID()]
				events = append(events, cbEvent{caller: who, index: j, at: time.Now().UnixNano()})
				cancel := cancels[who]
				mu.Unlock()

				if ctxMode[who] == 2 && cancelAt[who] == j && cancel != nil {
					cancel()
				}

				for k := 0; k < 3; k++ {
					runtime.Gosched()
				}

				atomic.AddInt32(&inflight, -1)
			})
		}

		type result struct {
			err error
			at  int64
		}

		results := make([]result, ncallers)
		t0 := time.Now()

		var wg sync.WaitGroup

		for i := 0; i < ncallers; i++ {
			i := i

			wg.Add(1)

			go func() {
				defer wg.Done()

				mu.Lock()
				curCaller[curGoID()] = i
				mu.Unlock()

				ctx, cancel := context.WithCancel(context.Background())
				defer cancel()

				mu.Lock()
				cancels[i] = cancel
				mu.Unlock()

				if ctxMode[i] == 1 {
					cancel()
				}

				time.Sleep(offsets[i])

				err := inv.Invalidate(ctx)
				results[i] = result{err: err, at: time.Now().UnixNano()}
			}()
		}

		synctest.Wait()
		time.Sleep(cur + time.Second)
		wg.Wait()

		c.Assert(atomic.LoadInt32(&overlap) == 0, "callbacks-overlap", "two callbacks were in flight at the same time")

		// group results
		accepted := map[int]bool{}

		for i, r := range results {
			c.Tracef("caller %d at +%v: %v", i, time.Duration(r.at-t0.UnixNano()), r.err)

			if ncb == 0 {
				c.Assert(errors.Is(r.err, cache.ErrNothingToInvalidate), "nothing-to-invalidate", "caller %d with no callbacks registered got %v, want ErrNothingToInvalidate", i, r.err)

				continue
			}

			if r.err == nil {
				accepted[i] = true
			} else {
				c.Assert(errors.Is(r.err, cache.ErrAlreadyInvalidated), "rejected-error", "caller %d got %v, want nil or ErrAlreadyInvalidated", i, r.err)
			}
		}

		if ncb == 0 {
			c.Assert(len(events) == 0, "callbacks-ran", "callbacks ran although none are registered")

			return
		}

		// callback log: consecutive runs 0..n-1, one per accepted caller
		runsOf := map[int]int{}

		for p := 0; p < len(events); p += ncb {
			c.Assert(p+ncb <= len(events), "partial-run", "callback log ends with a partial run: %v", events[p:])

			caller := events[p].caller

			for j := 0; j < ncb; j++ {
				e := events[p+j]
				c.Assert(e.caller == caller && e.index == j, "run-order", "callback log position %d: caller %d index %d, want caller %d index %d (runs must not interleave, registration order)", p+j, e.caller, e.index, caller, j)
			}

			runsOf[caller]++
		}

		for i := range results {
			want := 0
			if accepted[i] {
				want = 1
			}

			c.Assert(runsOf[i] == want, "run-count", "caller %d (accepted=%v) ran the callbacks %d times", i, accepted[i], runsOf[i])
		}

		// acceptance spec per instant
		byInstant := map[int64][]int{}

		var instants []int64

		for i, r := range results {
			if _, ok := byInstant[r.at]; !ok {
				instants = append(instants, r.at)
			}

			byInstant[r.at] = append(byInstant[r.at], i)
		}

		sort.Slice(instants, func(a, b int) bool { return instants[a] < instants[b] })

		haveLast := false

		var last int64

		for _, at := range instants {
			group := byInstant[at]
			nacc := 0

			for _, i := range group {
				if accepted[i] {
					nacc++
				}
			}

			switch {
			case eff < 0:
				c.Assert(nacc == len(group), "acceptance", "negative SkipInterval: %d of %d calls at +%v accepted, want all", nacc, len(group), time.Duration(at-t0.UnixNano()))
			case haveLast && time.Duration(at-last) < eff:
				c.Assert(nacc == 0, "accepted-too-early", "%d call(s) accepted at +%v, only %v after the previous accepted call (SkipInterval %v)", nacc, time.Duration(at-t0.UnixNano()), time.Duration(at-last), eff)
			default:
				c.Assert(nacc == 1, "acceptance", "%d of %d calls accepted at +%v, want exactly 1 (previous accepted call %v earlier, SkipInterval %v)", nacc, len(group), time.Duration(at-t0.UnixNano()), time.Duration(at-last), eff)
				haveLast, last = true, at
			}
		}
	})
}
