package harness

import (
	"context"
	"errors"
	"math"
	"runtime"
	"sort"
	"sync"
	"sync/atomic"
	"testing"
	"testing/synctest"
	"time"

	"github.com/bool64/cache"
)

const c17Rule = "fake clock: SkipInterval in {0 (default 15s), 1ns..1h, negative}, 0-4 callbacks (nil or empty list when 0), 1-12 callers each sleeping to a generated instant (many share an instant => real contention on the mutex), instants on both sides of SkipInterval including +/-1ns; " +
	"oracle (exact): per instant in time order exactly one call is accepted iff no accepted call lies less than SkipInterval before it (all calls when SkipInterval<0), every accepted call runs every callback exactly once in registration order, runs never interleave (in-flight <= 1), " +
	"a rejected call ran nothing and returns ErrAlreadyInvalidated, no callbacks => ErrNothingToInvalidate; non-trivial = >=2 callers share an instant or a call lands within 1ns of the interval boundary"

// TestC17Invalidator: Invalidator runs all callbacks, at most once per SkipInterval.
func TestC17Invalidator(t *testing.T) {
	runCheck(t, "C17", "C17Invalidator", c17Rule, propInvalidator)
}

type cbEvent struct {
	caller int
	index  int
	at     int64
}

func propInvalidator(c *Case) {
	skip := []time.Duration{0, time.Second, time.Nanosecond, 2 * time.Nanosecond, time.Hour, -1, -time.Hour,
		math.MaxInt64, 250 * 365 * 24 * time.Hour}[c.Pick("SkipInterval", 9)] // the last two: "only once"
	eff := skip
	if eff == 0 {
		eff = 15 * time.Second
	}

	ncb := c.Int("callbacks", 0, 4)
	if c.Weighted("many-callbacks", 9, 1) == 1 {
		ncb = []int{33, 40, 100}[c.Pick("ncallbacks", 3)]
		c.Class("many-callbacks")
	}
	emptyList := ncb == 0 && c.Bool("empty-non-nil")
	ncallers := c.Int("callers", 1, 12)

	// caller instants: cumulative offsets from a menu around the interval
	menu := []time.Duration{0, 0, time.Nanosecond, eff - 1, eff, eff + 1, eff / 2, 2 * eff, 3 * time.Second}
	if eff > 200*365*24*time.Hour {
		// every reachable instant lies within the interval (the fake clock ends in year ~2255)
		menu = []time.Duration{0, 0, time.Nanosecond, 3 * time.Second, time.Hour, 20 * 365 * 24 * time.Hour}
		c.Class("huge-SkipInterval")
	}
	offsets := make([]time.Duration, ncallers)
	cur := time.Duration(0)

	for i := range offsets {
		d := menu[c.Pick("gap", len(menu))]
		if d < 0 {
			d = 0
		}

		if d == 0 && i > 0 {
			c.Class("shared-instant")
			c.NonTrivial()
		}

		if eff > 0 && (d == eff-1 || d == eff || d == eff+1) {
			c.Class("boundary-gap")
			c.NonTrivial()
		}

		cur += d
		offsets[i] = cur
	}

	// caller contexts: 0 background, 1 cancelled before the call, 2 cancelled by callback #cancelAt while it runs
	ctxMode := make([]int, ncallers)
	cancelAt := make([]int, ncallers)

	for i := range ctxMode {
		ctxMode[i] = c.Weighted("ctx", 4, 1, 1)
		if ctxMode[i] == 2 && ncb > 0 {
			cancelAt[i] = c.Pick("cancel-at", ncb)
		}

		if ctxMode[i] != 0 {
			c.Class("cancelled-context")
		}
	}

	// the exported field may be changed while the instance is in use (under its embedded mutex):
	// the interval in effect at a call is the one that counts
	changeAfter, skip2 := -1, skip

	if eff <= time.Hour && ncallers >= 2 && c.Weighted("SkipInterval-changed-at-runtime", 4, 1) == 1 {
		for j := 0; j+1 < ncallers; j++ {
			if offsets[j+1] > offsets[j]+1 {
				changeAfter = j // strictly between two call instants
			}
		}

		if changeAfter >= 0 {
			skip2 = []time.Duration{time.Second, time.Nanosecond, time.Hour, -1, 0, 3 * time.Second}[c.Pick("SkipInterval2", 6)]
			c.Class("SkipInterval-changed-at-runtime")
		}
	}

	eff2 := skip2
	if eff2 == 0 {
		eff2 = 15 * time.Second
	}

	c.Tracef("SkipInterval=%v callbacks=%d (empty list=%v) caller offsets=%v ctx modes=%v; SkipInterval becomes %v after caller %d", skip, ncb, emptyList, offsets, ctxMode, skip2, changeAfter)

	c.Bubble(func() {
		inv := &cache.Invalidator{SkipInterval: skip}

		var (
			mu       sync.Mutex
			events   []cbEvent
			inflight int32
			overlap  int32
		)

		curCaller := map[int64]int{}
		cancels := map[int]context.CancelFunc{}

		if emptyList {
			inv.Callbacks = []func(context.Context){}
		}

		for j := 0; j < ncb; j++ {
			j := j
			inv.Callbacks = append(inv.Callbacks, func(ctx context.Context) {
				if atomic.AddInt32(&inflight, 1) > 1 {
					atomic.StoreInt32(&overlap, 1)
				}

				mu.Lock()
				who := curCaller[curGoID()]
				events = append(events, cbEvent{caller: who, index: j, at: time.Now().UnixNano()})
				cancel := cancels[who]
				mu.Unlock()

				if ctxMode[who] == 2 && cancelAt[who] == j && cancel != nil {
					cancel()
				}

				for k := 0; k < 3; k++ {
					runtime.Gosched()
				}

				atomic.AddInt32(&inflight, -1)
			})
		}

		type result struct {
			err error
			at  int64
		}

		results := make([]result, ncallers)
		t0 := time.Now()

		var wg sync.WaitGroup

		for i := 0; i < ncallers; i++ {
			i := i

			wg.Add(1)

			go func() {
				defer wg.Done()

				mu.Lock()
				curCaller[curGoID()] = i
				mu.Unlock()

				ctx, cancel := context.WithCancel(context.Background())
				defer cancel()

				mu.Lock()
				cancels[i] = cancel
				mu.Unlock()

				if ctxMode[i] == 1 {
					cancel()
				}

				time.Sleep(offsets[i])

				err := inv.Invalidate(ctx)
				results[i] = result{err: err, at: time.Now().UnixNano()}
			}()
		}

		if changeAfter >= 0 {
			wg.Add(1)

			go func() {
				defer wg.Done()

				time.Sleep(offsets[changeAfter] + 1)
				inv.Lock()
				inv.SkipInterval = skip2
				inv.Unlock()
			}()
		}

		synctest.Wait()
		time.Sleep(cur + time.Second)
		wg.Wait()

		c.Assert(atomic.LoadInt32(&overlap) == 0, "callbacks-overlap", "two callbacks were in flight at the same time")

		// group results
		accepted := map[int]bool{}

		for i, r := range results {
			c.Tracef("caller %d at +%v: %v", i, time.Duration(r.at-t0.UnixNano()), r.err)

			if ncb == 0 {
				c.Assert(errors.Is(r.err, cache.ErrNothingToInvalidate), "nothing-to-invalidate", "caller %d with no callbacks registered got %v, want ErrNothingToInvalidate", i, r.err)

				continue
			}

			if r.err == nil {
				accepted[i] = true
			} else {
				c.Assert(errors.Is(r.err, cache.ErrAlreadyInvalidated), "rejected-error", "caller %d got %v, want nil or ErrAlreadyInvalidated", i, r.err)
			}
		}

		if ncb == 0 {
			c.Assert(len(events) == 0, "callbacks-ran", "callbacks ran although none are registered")

			return
		}

		// callback log: consecutive runs 0..n-1, one per accepted caller
		runsOf := map[int]int{}

		for p := 0; p < len(events); p += ncb {
			c.Assert(p+ncb <= len(events), "partial-run", "callback log ends with a partial run: %v", events[p:])

			caller := events[p].caller

			for j := 0; j < ncb; j++ {
				e := events[p+j]
				c.Assert(e.caller == caller && e.index == j, "run-order", "callback log position %d: caller %d index %d, want caller %d index %d (runs must not interleave, registration order)", p+j, e.caller, e.index, caller, j)
			}

			runsOf[caller]++
		}

		for i := range results {
			want := 0
			if accepted[i] {
				want = 1
			}

			c.Assert(runsOf[i] == want, "run-count", "caller %d (accepted=%v) ran the callbacks %d times", i, accepted[i], runsOf[i])
		}

		// acceptance spec per instant
		byInstant := map[int64][]int{}

		var instants []int64

		for i, r := range results {
			if _, ok := byInstant[r.at]; !ok {
				instants = append(instants, r.at)
			}

			byInstant[r.at] = append(byInstant[r.at], i)
		}

		sort.Slice(instants, func(a, b int) bool { return instants[a] < instants[b] })

		haveLast := false

		var last int64

		for _, at := range instants {
			group := byInstant[at]
			nacc := 0

			eff := eff
			if changeAfter >= 0 && time.Duration(at-t0.UnixNano()) > offsets[changeAfter] {
				eff = eff2
			}

			for _, i := range group {
				if accepted[i] {
					nacc++
				}
			}

			switch {
			case eff < 0:
				// nothing has to be skipped; calls that arrive while another one is running may still be
				// turned away (the statement only constrains what accepted and rejected calls do)
				c.Assert(nacc >= 1, "acceptance", "negative SkipInterval: none of %d calls at +%v accepted", len(group), time.Duration(at-t0.UnixNano()))
				haveLast, last = true, at
			case haveLast && time.Duration(at-last) < eff:
				c.Assert(nacc == 0, "accepted-too-early", "%d call(s) accepted at +%v, only %v after the previous accepted call (SkipInterval %v)", nacc, time.Duration(at-t0.UnixNano()), time.Duration(at-last), eff)
			default:
				c.Assert(nacc == 1, "acceptance", "%d of %d calls accepted at +%v, want exactly 1 (previous accepted call %v earlier, SkipInterval %v)", nacc, len(group), time.Duration(at-t0.UnixNano()), time.Duration(at-last), eff)
				haveLast, last = true, at
			}
		}

		// de-registration: with no callbacks left every call reports ErrNothingToInvalidate, also right
		// after an accepted run (nothing is rejected as "already invalidated" when there is nothing to run)
		if c.Bool("deregister-all") {
			c.Class("callbacks-deregistered")

			if c.Bool("empty-not-nil") {
				inv.Callbacks = inv.Callbacks[:0]
			} else {
				inv.Callbacks = nil
			}

			before := len(events)

			for _, wait := range []time.Duration{0, time.Nanosecond, eff + 1} {
				if wait > 0 {
					time.Sleep(wait)
				}

				err := inv.Invalidate(context.Background())
				c.Assert(errors.Is(err, cache.ErrNothingToInvalidate), "nothing-to-invalidate", "all callbacks de-registered, Invalidate %v after the last accepted run returned %v, want ErrNothingToInvalidate", time.Duration(time.Now().UnixNano()-last), err)
			}

			c.Assert(len(events) == before, "callbacks-ran", "callbacks ran after de-registration")
		}
	})
}

const c17bRule = "REAL clock (callbacks that take time cannot be modelled in a bubble: callers queue on the Invalidator's mutex, which is not a durable block): SkipInterval 30ms, 2 callbacks whose duration depends on the run (first accepted run 0/2/3 intervals long, later runs 0 or half an interval), 3-6 callers arriving at generated offsets around those runs (queued behind a running invalidation, right after it, one interval later); " +
	"oracle = a SOUND witness from monotonic timestamps taken by the harness only: an accepted call k was accepted somewhere in [max(invoke_k, end of run k-1), start of its first callback]; a violation is reported only if start(run k+1) - max(invoke_k, end(run k-1)) < SkipInterval (no assignment of acceptance instants can satisfy spacing and non-overlap), or two callbacks overlap, or a run is incomplete/out of order, or a rejected call ran a callback / returned another error; scheduling delays can only hide a violation, never fake one; " +
	"non-trivial = a caller was queued behind a running invalidation"

// TestC17RealTime covers invalidations whose callbacks take time, with queued callers.
func TestC17RealTime(t *testing.T) {
	runCheck(t, "C17", "C17RealTime", c17bRule, func(c *Case) {
		const S = 30 * time.Millisecond

		firstRun := []time.Duration{3 * S, 0, 2 * S}[c.Pick("first-run", 3)]
		laterRun := []time.Duration{0, S / 2}[c.Pick("later-run", 2)]
		ncallers := c.Int("callers", 3, 6)
		menu := []time.Duration{0, S / 2, 3 * S / 2, firstRun + 3*time.Millisecond, firstRun + S/2, firstRun + S + 5*time.Millisecond, firstRun + 2*S}
		offsets := make([]time.Duration, ncallers)

		for i := range offsets {
			offsets[i] = menu[c.Pick("offset", len(menu))]
			if i > 0 && offsets[i] > 0 && offsets[i] < firstRun {
				c.Class("queued-behind-running-invalidation")
				c.NonTrivial()
			}
		}

		offsets[0] = 0
		c.Tracef("SkipInterval=%v first run %v later runs %v caller offsets %v", S, firstRun, laterRun, offsets)

		var (
			mu       sync.Mutex
			runs     []*rtRun
			cur      *rtRun
			inflight int32
			overlap  int32
			nruns    int32
		)

		inv := &cache.Invalidator{SkipInterval: S}
		curCaller := map[int64]int{}

		for j := 0; j < 2; j++ {
			j := j
			inv.Callbacks = append(inv.Callbacks, func(context.Context) {
				if atomic.AddInt32(&inflight, 1) > 1 {
					atomic.StoreInt32(&overlap, 1)
				}

				now := time.Now()

				mu.Lock()
				who := curCaller[curGoID()]

				if j == 0 {
					cur = &rtRun{caller: who, start: now}
					runs = append(runs, cur)
				}

				r := cur
				r.order = append(r.order, j)
				r.callers = append(r.callers, who)
				mu.Unlock()

				d := laterRun
				if atomic.LoadInt32(&nruns) == 0 {
					d = firstRun
				}

				if d > 0 {
					time.Sleep(d / 2)
				}

				if j == 1 {
					atomic.AddInt32(&nruns, 1)

					mu.Lock()
					r.end = time.Now()
					mu.Unlock()
				}

				atomic.AddInt32(&inflight, -1)
			})
		}

		type res struct {
			invoke time.Time
			err    error
		}

		results := make([]res, ncallers)
		t0 := time.Now()

		var wg sync.WaitGroup

		for i := 0; i < ncallers; i++ {
			i := i

			wg.Add(1)

			go func() {
				defer wg.Done()

				mu.Lock()
				curCaller[curGoID()] = i
				mu.Unlock()

				time.Sleep(time.Until(t0.Add(offsets[i])))

				results[i].invoke = time.Now()
				results[i].err = inv.Invalidate(context.Background())
			}()
		}

		wg.Wait()

		c.Assert(atomic.LoadInt32(&overlap) == 0, "callbacks-overlap", "two callbacks were in flight at the same time")

		accepted := map[int]bool{}

		for i, r := range results {
			c.Tracef("caller %d invoked at +%v: %v", i, r.invoke.Sub(t0), r.err)

			if r.err == nil {
				accepted[i] = true
			} else {
				c.Assert(errors.Is(r.err, cache.ErrAlreadyInvalidated), "rejected-error", "caller %d got %v, want nil or ErrAlreadyInvalidated", i, r.err)
			}
		}

		ran := map[int]int{}

		for k, r := range runs {
			c.Tracef("run %d by caller %d: [+%v, +%v] order %v", k, r.caller, r.start.Sub(t0), r.end.Sub(t0), r.order)
			c.Assert(len(r.order) == 2 && r.order[0] == 0 && r.order[1] == 1 && r.callers[0] == r.callers[1], "run-order", "run %d executed callbacks %v by callers %v, want [0 1] by one caller", k, r.order, r.callers)
			ran[r.caller]++
		}

		for i := range results {
			want := 0
			if accepted[i] {
				want = 1
			}

			c.Assert(ran[i] == want, "run-count", "caller %d (accepted=%v) ran the callbacks %d times", i, accepted[i], ran[i])
		}

		for k := 0; k+1 < len(runs); k++ {
			low := results[runs[k].caller].invoke
			if k > 0 && runs[k-1].end.After(low) {
				low = runs[k-1].end
			}

			gap := runs[k+1].start.Sub(low)
			c.Assert(gap >= S, "accepted-too-early", "run %d started only %v after the earliest instant at which run %d can have been accepted (its invocation / the end of the run before it): accepted calls closer than SkipInterval %v", k+1, gap, k, S)
		}
	})
}

type rtRun struct {
	caller     int
	start, end time.Time
	order      []int
	callers    []int
}

const c17pRule = "a callback may panic (its caller recovers): SkipInterval S from {1s, 15s default, 1h}, 2-4 callbacks one of which panics in the first accepted run, a second call d after the first with d on both sides of S, a third call later; " +
	"oracle: the first call ran the callbacks before the panicking one, so it was accepted: a call less than S after it runs nothing and returns ErrAlreadyInvalidated, a call S or more after it runs every callback once in order; " +
	"non-trivial = the second call lies within the interval"

// TestC17PanickingCallback: an accepted run that ends in a panic still counts for the spacing.
func TestC17PanickingCallback(t *testing.T) {
	runCheck(t, "C17", "C17PanickingCallback", c17pRule, func(c *Case) {
		skip := []time.Duration{time.Second, 0, time.Hour}[c.Pick("SkipInterval", 3)]
		eff := skip

		if eff == 0 {
			eff = 15 * time.Second
		}

		ncb := c.Int("callbacks", 2, 4)
		bad := c.Int("panicking-callback", 1, ncb-1)
		d := []time.Duration{time.Nanosecond, eff / 2, eff - 1, eff, eff + 1}[c.Pick("second-call-after", 5)]

		c.Tracef("SkipInterval=%v, %d callbacks, #%d panics in the first run, second call %v after the first", skip, ncb, bad, d)

		if d < eff {
			c.NonTrivial()
		}

		c.Bubble(func() {
			inv := &cache.Invalidator{SkipInterval: skip}
			armed := true

			var log []int

			for j := 0; j < ncb; j++ {
				j := j
				inv.Callbacks = append(inv.Callbacks, func(context.Context) {
					log = append(log, j)

					if j == bad && armed {
						armed = false

						panic("callback gave up")
					}
				})
			}

			call := func() (err error, panicked interface{}) {
				defer func() { panicked = recover() }()

				return inv.Invalidate(context.Background()), nil
			}

			_, p1 := call()
			c.Tracef("first call: recovered %v, callbacks run %v", p1, log)

			// what a panicking callback does to the rest of its run is not specified (abort, or go on with
			// the remaining callbacks); the callbacks before it ran, in order
			okPrefix := len(log) > bad

			for j := 0; j <= bad && okPrefix; j++ {
				okPrefix = log[j] == j
			}

			c.Assert(okPrefix, "run-order", "first run executed callbacks %v, want 0..%d first", log, bad)

			log = nil

			time.Sleep(d)

			err2, p2 := call()
			c.Tracef("second call %v later: %v (panic %v), callbacks run %v", d, err2, p2, log)
			c.Assert(p2 == nil, "invalidate-panic", "second Invalidate panicked: %v", p2)

			if d < eff {
				c.Assert(errors.Is(err2, cache.ErrAlreadyInvalidated) && len(log) == 0, "accepted-too-early",
					"a call %v after an accepted call (whose callback #%d panicked) returned %v and ran callbacks %v, SkipInterval %v", d, bad, err2, log, eff)
			} else {
				c.Assert(err2 == nil && len(log) == ncb, "acceptance", "a call %v after the previous accepted call returned %v and ran callbacks %v, SkipInterval %v", d, err2, log, eff)
			}
		})
	})
}
