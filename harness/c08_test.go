package harness

import (
	"bytes"
	"errors"
	"fmt"
	"runtime"
	"sort"
	"sync"
	"sync/atomic"
	"testing"
	"time"

	"github.com/anishathalye/porcupine"
	"github.com/bool64/cache"
)

const c08Rule = "free-running goroutines inside a synctest bubble (clock frozen within a phase, advanced between phases so expiry is schedule-independent): backend x eviction strategy, 2-5 slots (for hash-indexed backends slot 0 is a constructed xxhash64-colliding key pair), 1-3 phases of 2-8 goroutines x 2-8 ops from {Write, Read, Delete, ExpireAll, DeleteAll, Walk, Len, cleanup cycle with eviction}; " +
	"every op records call/return stamps from one atomic counter; oracle: porcupine linearizability per slot against a nondeterministic model (batch ops act per key at one instant within their call; cleanup may or may not remove an entry; each Walk callback is an observation over [walk call, callback]); plus Walk visits no key twice, only stored values, and visits/omits keys whose state is determined by a preceding Write/Delete with nothing overlapping; " +
	"non-trivial = some slot has >=2 overlapping ops of which one mutates"

type lzKind int

const (
	lzWrite lzKind = iota
	lzRead
	lzDelete
	lzExpireAll
	lzDeleteAll
	lzCleanup
	lzObserve
	lzExpunge // the delete-long-expired half of a cleanup cycle (deterministic)
)

type lzIn struct {
	kind lzKind
	slot int
	kidx int // index of the key within its slot (1 only for the second key of a colliding pair)
	key  string
	tok  string
	e    int64 // write: expiry the entry gets
	now  int64
	// single: a batch operation recorded for the key kidx only
	single bool
}

type lzOut struct {
	rk       readKind
	tok      string
	e        int64
	notFound bool
}

// lzState is the state of one slot: up to two keys (a hash-colliding pair shares a slot; whether
// writing one key displaces the other one is left open: "a collision may at most cost a miss").
type lzState struct {
	ent [2]lzEnt
}

type lzEnt struct {
	present bool
	tok     string
	e       int64
	// doomed: the entry had been expired longer than DeleteExpiredAfter when an ExpireAll re-stamped
	// it; a cleanup cycle that examined it before the re-stamp may still remove it afterwards
	doomed bool
}

const lzDeleteExpiredAfter = int64(time.Hour)

func lzVariants(s lzState, i int, alts []lzEnt) []lzState {
	out := make([]lzState, 0, len(alts))

	for _, a := range alts {
		t := s
		t.ent[i] = a
		out = append(out, t)
	}

	return out
}

// lzBatch applies a per-entry transition (returning the possible next entries) to both entries.
func lzBatch(s lzState, in lzIn, f func(e lzEnt) []lzEnt) []interface{} {
	var out []interface{}

	if in.single {
		for _, a := range f(s.ent[in.kidx]) {
			t := s
			t.ent[in.kidx] = a
			out = append(out, t)
		}

		return out
	}

	for _, a := range f(s.ent[0]) {
		for _, b := range f(s.ent[1]) {
			out = append(out, lzState{ent: [2]lzEnt{a, b}})
		}
	}

	return out
}

var lzModel = (&porcupine.NondeterministicModel{
	Init: func() []interface{} { return []interface{}{lzState{}} },
	Step: func(state, input, output interface{}) []interface{} {
		s := state.(lzState)
		in := input.(lzIn)
		out := output.(lzOut)
		i := in.kidx
		cur := s.ent[i]

		switch in.kind {
		case lzWrite:
			s.ent[i] = lzEnt{present: true, tok: in.tok, e: in.e}
			if s.ent[1-i].present {
				dropped := s
				dropped.ent[1-i] = lzEnt{}

				return []interface{}{s, dropped}
			}

			return []interface{}{s}
		case lzRead:
			if !cur.present {
				if out.rk == rkNotFound {
					return []interface{}{s}
				}

				return nil
			}

			// The clock is frozen within a phase, so an entry expired by a concurrent ExpireAll has
			// E == now exactly; a real reader's "now" may lie anywhere in its call interval, hence
			// both outcomes are linearizable at E == now (the strict boundary is checked by C07/C10).
			mayBeExpired := cur.e != 0 && cur.e <= in.now
			mayBeFresh := cur.e == 0 || cur.e >= in.now

			if mayBeExpired && out.rk == rkExpired && out.tok == cur.tok && out.e == cur.e {
				return []interface{}{s}
			}

			if mayBeFresh && out.rk == rkHit && out.tok == cur.tok {
				return []interface{}{s}
			}

			return nil
		case lzDelete:
			if cur.present {
				if !out.notFound {
					s.ent[i] = lzEnt{}

					return []interface{}{s}
				}

				return nil
			}

			if out.notFound {
				return []interface{}{s}
			}

			return nil
		case lzExpireAll:
			return lzBatch(s, in, func(e lzEnt) []lzEnt {
				if !e.present {
					return []lzEnt{e}
				}

				t := e
				t.e = in.now

				if e.e != 0 && e.e < in.now-lzDeleteExpiredAfter {
					t.doomed = true
				}

				if e.e != 0 && e.e < in.now {
					return []lzEnt{e, t} // already expired: keeps its older expiry or gets the ExpireAll instant
				}

				return []lzEnt{t}
			})
		case lzDeleteAll:
			if in.single {
				s.ent[in.kidx] = lzEnt{}

				return []interface{}{s}
			}

			return []interface{}{lzState{}}
		case lzCleanup:
			return lzBatch(s, in, func(e lzEnt) []lzEnt {
				if e.present {
					return []lzEnt{e, {}}
				}

				return []lzEnt{e}
			})
		case lzExpunge:
			// removes exactly the entries expired longer than DeleteExpiredAfter (in.e carries the boundary)
			return lzBatch(s, in, func(e lzEnt) []lzEnt {
				if e.present && e.e != 0 && e.e < in.e {
					return []lzEnt{{}}
				}

				if e.present && e.doomed {
					return []lzEnt{e, {}}
				}

				return []lzEnt{e}
			})
		case lzObserve:
			if cur.present && cur.tok == out.tok && cur.e == out.e {
				return []interface{}{s}
			}

			return nil
		}

		return nil
	},
	DescribeOperation: func(input, output interface{}) string {
		return fmt.Sprintf("%+v -> %+v", input, output)
	},
}).ToModel()

type lzOpSpec struct {
	kind lzKind // lzObserve stands for Walk here, lzRead+100 for Len
	slot int
	kidx int
	ttl  time.Duration
	spin int
}

const lzWalk lzKind = 100
const lzLen lzKind = 101

// TestC08Linearizable: per-key linearizability of backends under concurrent use.
func TestC08Linearizable(t *testing.T) {
	runCheck(t, "C08", "C08Linearizable", c08Rule, propLinearizable)
}

func propLinearizable(c *Case) {
	kind := backendKinds[c.Pick("backend", len(backendKinds))]
	strategy := cache.EvictionStrategy(c.Pick("strategy", 3))
	nslots := c.Int("slots", 2, 5)
	cfgTTL := []time.Duration{time.Hour, cache.UnlimitedTTL, time.Second}[c.Pick("cfgTTL", 3)]
	evict := c.Bool("eviction")

	// focus: an UnlimitedTTL cache that receives per-call TTLs now and then, with cleanup cycles racing those
	// writes and long pauses in between (the delete-expired scan of such a cache is switched on and off by need)
	focus := c.Weighted("focus-unlimited-with-ttl-writes", 5, 1) == 1
	if focus {
		cfgTTL, evict, strategy = cache.UnlimitedTTL, false, cache.EvictMostExpired
		c.Class("focus=unlimited-ttl-cache-with-per-call-ttls")
	}

	// slot keys: slot 0 is a colliding pair on hash-indexed backends
	base := make([]byte, 70)
	for i := range base {
		base[i] = byte('a' + i%7)
	}

	slotKeys := make([][][]byte, nslots)
	slotKeys[0] = [][]byte{base}

	if kind != kindSync {
		slotKeys[0] = append(slotKeys[0], collide(base, c.Int("lane", 0, 3), uint64(c.Int("a0", 1, 1<<30))*0x9E3779B97F4A7C15))
	}

	// slots 1-3 are three different keys of ONE shard (a bucket with several entries), the rest elsewhere
	order := []int{0, 7, 8, 2, 6}
	for s := 1; s < nslots; s++ {
		slotKeys[s] = [][]byte{baseKeys[order[s-1]]}
	}

	// the last two slots may be two ordinary keys whose hashes agree in half of their bits
	if nslots >= 4 && c.Weighted("partial-hash-pair", 2, 1) == 1 {
		pp := partialPairs[c.Pick("pair", len(partialPairs))]
		slotKeys[nslots-2], slotKeys[nslots-1] = [][]byte{pp[0]}, [][]byte{pp[1]}
		c.Class("slots-with-partially-equal-hashes")
	}

	slotOf := map[string]int{}
	for s, ks := range slotKeys {
		for _, k := range ks {
			slotOf[string(k)] = s
		}
	}

	// program
	nphases := c.Int("phases", 1, 3)
	prog := make([][][]lzOpSpec, nphases)
	gaps := make([]time.Duration, nphases)

	for p := 0; p < nphases; p++ {
		gaps[p] = []time.Duration{time.Nanosecond, time.Second + 1, 2 * time.Hour}[c.Pick("gap", 3)]
		if focus {
			gaps[p] = []time.Duration{time.Second + 1, 2 * time.Hour, 2 * time.Hour}[c.Pick("gap", 3)]
		}

		ng := c.Int("goroutines", 2, 8)

		for g := 0; g < ng; g++ {
			nops := c.Int("nops", 2, 8)

			var ops []lzOpSpec

			for i := 0; i < nops; i++ {
				o := lzOpSpec{slot: c.Pick("slot", nslots), spin: c.Int("spin", 0, 2)}

				weights := []int{8, 8, 4, 1, 1, 3, 2, 1}
				if focus {
					weights = []int{8, 6, 1, 1, 1, 8, 1, 0}
				}

				switch c.Weighted("op", weights...) {
				case 0:
					o.kind = lzWrite
					o.ttl = []time.Duration{0, time.Hour, time.Second, -time.Second, -2 * time.Hour}[c.Pick("ttl", 5)]

					if focus && o.ttl == 0 {
						o.ttl = time.Second
					}
				case 1:
					o.kind = lzRead
				case 2:
					o.kind = lzDelete
				case 3:
					o.kind = lzExpireAll
				case 4:
					o.kind = lzDeleteAll
				case 5:
					o.kind = lzCleanup
				case 6:
					o.kind = lzWalk
				case 7:
					o.kind = lzLen
				}

				o.kidx = c.Pick("kidx", len(slotKeys[o.slot]))
				ops = append(ops, o)
			}

			prog[p] = append(prog[p], ops)
		}
	}

	c.Class("backend=" + kind)
	c.Tracef("backend=%s strategy=%d slots=%d TimeToLive=%v phases=%d", kind, strategy, nslots, cfgTTL, nphases)

	var (
		history []porcupine.Operation
		hmu     sync.Mutex
		stamp   int64
		walks   []walkObs
		tokens  = map[string]bool{}
		lens    []int
		dups    []walkDup
	)

	limit := uint64(0)
	if evict {
		limit = 2
		c.Class("eviction-enabled")
	}

	prefill := 0
	sameShardMass := 0

	if !evict {
		switch c.Weighted("prefill", 24, 1, 2) {
		case 1:
			prefill = 12000
			c.Class("prefilled-12000")
		case 2:
			// hundreds of long-expired entries in the shard of the slot keys "a" / "s..": the first cleanup cycle of
			// the concurrent phase removes most of that bucket while the slot keys are written and deleted
			prefill, sameShardMass = 1, []int{200, 600}[c.Pick("mass", 2)]
			c.Class("prefilled-same-shard-long-expired-mass")
		}
	}

	c.Bubble(func() {
		be := newCaseBackend(c, kind, cache.Config{
			TimeToLive: cfgTTL, ExpirationJitter: -1, EvictionStrategy: strategy, CountSoftLimit: limit, EvictFraction: 0.5,
			DeleteExpiredJobInterval: farFuture, DeleteExpiredAfter: time.Hour,
		})

		// now and then the concurrent phase runs on top of a large population (batch operations of
		// big caches may take other code paths); the filler keys belong to no slot
		for _, k := range sameShardFill(sameShardMass) {
			_ = be.Write(ttlCtx(-2*time.Hour), k, "fill")
		}

		if prefill > 1 {
			for i := 0; i < prefill; i++ {
				_ = be.Write(bg, []byte(fmt.Sprintf("fill-%05d", i)), "fill")
			}
		}

		record := func(client int, in lzIn, out lzOut, call, ret int64) {
			hmu.Lock()
			history = append(history, porcupine.Operation{ClientId: client, Input: in, Output: out, Call: call, Return: ret})
			hmu.Unlock()
		}

		// a batch operation acts on each KEY at one instant within its call: the two keys of a colliding
		// pair (which may coexist) are two operations on their slot
		recordBatch := func(client int, in lzIn, call, ret int64) {
			for ki := range slotKeys[in.slot] {
				in.kidx, in.single = ki, true
				record(client, in, lzOut{}, call, ret)
			}
		}

		client := 0

		for p := 0; p < nphases; p++ {
			time.Sleep(gaps[p])

			now := time.Now().UnixNano()

			var wg sync.WaitGroup

			start := make(chan struct{})

			for g, ops := range prog[p] {
				g, ops := g, ops
				client++
				cid := client

				wg.Add(1)

				go func() {
					defer wg.Done()

					<-start

					for i, o := range ops {
						for s := 0; s < o.spin; s++ {
							runtime.Gosched()
						}

						key := slotKeys[o.slot][o.kidx]
						k, poison := poisonKey(key)

						switch o.kind {
						case lzWrite:
							tok := fmt.Sprintf("t%d.%d.%d", p, g, i)

							var e int64

							switch {
							case o.ttl != 0:
								e = now + int64(o.ttl)
							case cfgTTL != cache.UnlimitedTTL:
								e = now + int64(cfgTTL)
							}

							hmu.Lock()
							tokens[tok] = true
							hmu.Unlock()

							call := atomic.AddInt64(&stamp, 1)
							_ = be.Write(ttlCtx(o.ttl), k, tok)
							ret := atomic.AddInt64(&stamp, 1)
							record(cid, lzIn{kind: lzWrite, slot: o.slot, kidx: o.kidx, key: string(key), tok: tok, e: e, now: now}, lzOut{}, call, ret)
						case lzRead:
							call := atomic.AddInt64(&stamp, 1)
							r := be.Read(bg, k)
							ret := atomic.AddInt64(&stamp, 1)

							out := lzOut{}

							switch {
							case r.Err == nil:
								out.rk, out.tok = rkHit, gstr(r.Val)
							case r.Expired:
								out.rk, out.tok, out.e = rkExpired, gstr(r.ExpVal), r.ExpAt.UnixNano()
							default:
								out.rk = rkNotFound
							}

							record(cid, lzIn{kind: lzRead, slot: o.slot, kidx: o.kidx, key: string(key), now: now}, out, call, ret)
						case lzDelete:
							call := atomic.AddInt64(&stamp, 1)
							err := be.Delete(bg, k)
							ret := atomic.AddInt64(&stamp, 1)
							record(cid, lzIn{kind: lzDelete, slot: o.slot, kidx: o.kidx, key: string(key), now: now}, lzOut{notFound: errors.Is(err, cache.ErrNotFound)}, call, ret)
						case lzExpireAll, lzDeleteAll, lzCleanup:
							call := atomic.AddInt64(&stamp, 1)

							switch o.kind {
							case lzExpireAll:
								be.ExpireAll(bg)
							case lzDeleteAll:
								be.DeleteAll(bg)
							default:
								be.Cleanup()
							}

							ret := atomic.AddInt64(&stamp, 1)

							for s := 0; s < nslots; s++ {
								if o.kind != lzCleanup {
									recordBatch(cid, lzIn{kind: o.kind, slot: s, now: now}, call, ret)

									continue
								}

								// A cleanup cycle is two batch operations, each acting on a key at its own
								// instant within the call: delete entries expired longer than
								// DeleteExpiredAfter (exactly those), then evict (anything, if a limit is set).
								recordBatch(cid, lzIn{kind: lzExpunge, slot: s, now: now, e: now - int64(time.Hour)}, call, ret)

								if evict {
									recordBatch(cid, lzIn{kind: lzCleanup, slot: s, now: now}, call, ret)
								}
							}
						case lzWalk:
							w := walkObs{call: atomic.AddInt64(&stamp, 1), client: cid}
							_, _ = be.Walk(func(wk []byte, v interface{}, exp time.Time) error {
								if prefill > 0 && bytes.HasPrefix(wk, []byte("fill-")) {
									return nil
								}

								at := atomic.AddInt64(&stamp, 1)
								w.rows = append(w.rows, walkRow{key: string(wk), val: gstr(v), e: exp.UnixNano()})
								w.stamps = append(w.stamps, at)

								return nil
							})
							w.ret = atomic.AddInt64(&stamp, 1)

							hmu.Lock()
							walks = append(walks, w)
							hmu.Unlock()
						case lzLen:
							n := be.Len()

							hmu.Lock()
							lens = append(lens, n)
							hmu.Unlock()
						}

						poison()
					}
				}()
			}

			close(start)
			wg.Wait()
		}
	})

	// --- oracle (outside the bubble)
	nkeys := len(slotOf)

	for _, n := range lens {
		// (the statement is per key: what Len reports while writes are in flight is not constrained)
		c.Assert(n >= 0, "len-bound", "Len() = %d (%d distinct keys ever written)", n, nkeys)
	}

	for _, w := range walks {
		seen := map[string]bool{}

		for i, r := range w.rows {
			if seen[r.key] {
				dups = append(dups, walkDup{w: w, key: r.key})
			}

			seen[r.key] = true

			s, ok := slotOf[r.key]
			c.Assert(ok, "walk-phantom-key", "Walk reported key %s that was never written", keyName([]byte(r.key)))
			c.Assert(tokens[gstr(r.val)], "walk-phantom-value", "Walk reported value %v that was never stored", r.val)
			ki := 0
			if len(slotKeys[s]) > 1 && string(slotKeys[s][1]) == r.key {
				ki = 1
			}

			history = append(history, porcupine.Operation{
				ClientId: w.client, Call: w.call, Return: w.stamps[i],
				Input:  lzIn{kind: lzObserve, slot: s, kidx: ki, key: r.key},
				Output: lzOut{tok: gstr(r.val), e: r.e},
			})
		}
	}

	// per-slot partitions
	parts := make([][]porcupine.Operation, nslots)

	for _, op := range history {
		s := op.Input.(lzIn).slot
		parts[s] = append(parts[s], op)
	}

	// a key re-written during a walk is a new entry and may be visited again; an entry that exists
	// unchanged for the whole walk is visited exactly once
	for _, d := range dups {
		mutated := false

		for _, op := range parts[slotOf[d.key]] {
			k := op.Input.(lzIn).kind
			if k != lzRead && k != lzObserve && op.Call <= d.w.ret && op.Return >= d.w.call {
				mutated = true
			}
		}

		c.Assert(mutated, "walk-dup", "Walk [%d,%d] visited key %s twice although nothing changed it during the walk", d.w.call, d.w.ret, keyName([]byte(d.key)))
	}

	overlapMut := false

	for s, ops := range parts {
		for i := range ops {
			for j := i + 1; j < len(ops); j++ {
				a, b := ops[i], ops[j]
				if a.Call <= b.Return && b.Call <= a.Return {
					ka, kb := a.Input.(lzIn).kind, b.Input.(lzIn).kind
					if (ka != lzRead && ka != lzObserve) || (kb != lzRead && kb != lzObserve) {
						overlapMut = true
					}
				}
			}
		}

		res, info := porcupine.CheckOperationsVerbose(lzModel, ops, 0)
		if res != porcupine.Ok {
			sort.Slice(ops, func(i, j int) bool { return ops[i].Call < ops[j].Call })

			for _, op := range ops {
				c.Tracef("slot %d: client %d [%d,%d] %+v -> %+v", s, op.ClientId, op.Call, op.Return, op.Input, op.Output)
			}

			_ = info
			c.Failf("not-linearizable", "history of slot %d (%d ops, keys %v) on %s is not linearizable (result %v)", s, len(ops), slotNames(slotKeys[s]), kind, res)
		}
	}

	if overlapMut {
		c.Class("overlapping-mutation")
		c.NonTrivial()
	}

	// Walk completeness for keys whose state is determined.
	for _, w := range walks {
		visited := map[string]bool{}
		for _, r := range w.rows {
			visited[r.key] = true
		}

		for s := 0; s < nslots; s++ {
			var before []porcupine.Operation

			overlap := false

			for _, op := range parts[s] {
				k := op.Input.(lzIn).kind
				if k == lzRead || k == lzObserve {
					continue
				}

				switch {
				case op.Return < w.call:
					before = append(before, op)
				case op.Call > w.ret:
				default:
					overlap = true
				}
			}

			if overlap || len(before) == 0 {
				continue
			}

			last := before[0]
			for _, op := range before {
				if op.Return > last.Return {
					last = op
				}
			}

			determined := true

			for _, op := range before {
				if op.Call != last.Call && op.Return >= last.Call {
					determined = false
				}
			}

			if !determined {
				continue
			}

			in := last.Input.(lzIn)

			switch in.kind {
			case lzWrite:
				c.Class("walk-must-visit")
				c.Assert(visited[in.key], "walk-skipped-entry", "Walk [%d,%d] did not visit key %s although Write [%d,%d] preceded it and nothing on the slot overlapped the walk",
					w.call, w.ret, keyName([]byte(in.key)), last.Call, last.Return)
			case lzDelete, lzDeleteAll:
				for _, k := range slotKeys[s] {
					if in.kind == lzDeleteAll || string(k) == in.key {
						okAbsent := !visited[string(k)]
						if in.kind == lzDelete && last.Output.(lzOut).notFound {
							okAbsent = true
						}

						c.Assert(okAbsent, "walk-visited-deleted", "Walk [%d,%d] visited key %s although %+v [%d,%d] preceded it with nothing overlapping", w.call, w.ret, keyName(k), in, last.Call, last.Return)
					}
				}
			}
		}
	}
}

type walkDup struct {
	w   walkObs
	key string
}

type walkObs struct {
	call, ret int64
	client    int
	rows      []walkRow
	stamps    []int64
}

func slotNames(ks [][]byte) []string {
	var out []string
	for _, k := range ks {
		out = append(out, keyName(k))
	}

	return out
}

const c08wRule = "real time, no bubble: the non-generic WalkDumpRestorer() adapter of ShardedMapOf (and the backends' own Walk) walking 2000 entries 30 times while 2-4 goroutines keep writing; " +
	"oracle: every walk completes (generous watchdog of 30 s for milliseconds of work) and reports only keys that were written, each at most once per walk unless it was re-written meanwhile; non-trivial = always"

// TestC08AdapterWalk: walking through the transfer adapters works alongside writers.
func TestC08AdapterWalk(t *testing.T) {
	runCheck(t, "C08", "C08AdapterWalk", c08wRule, func(c *Case) {
		c.NonTrivial()

		writers := c.Int("writers", 2, 4)
		viaAdapter := c.Weighted("walker", 1, 2) == 1
		cfg := cache.Config{TimeToLive: time.Hour, ExpirationJitter: -1, DeleteExpiredJobInterval: farFuture, ItemsCountReportInterval: farFuture}
		m := cache.NewShardedMapOf[string](cfg.Use)

		defer m.VerifClose()

		for i := 0; i < 2000; i++ {
			_ = m.Write(bg, []byte(fmt.Sprintf("w-%04d", i)), "v")
		}

		walk := func(fn func(k []byte) error) (int, error) {
			if viaAdapter {
				return m.WalkDumpRestorer().Walk(func(e cache.Entry) error { return fn(e.Key()) })
			}

			return m.Walk(func(e cache.EntryOf[string]) error { return fn(e.Key()) })
		}

		c.Tracef("%d writers, walking through the adapter=%v", writers, viaAdapter)

		stop := make(chan struct{})

		var wg sync.WaitGroup

		for g := 0; g < writers; g++ {
			g := g

			wg.Add(1)

			go func() {
				defer wg.Done()

				for i := 0; ; i++ {
					select {
					case <-stop:
						return
					default:
						_ = m.Write(bg, []byte(fmt.Sprintf("w-%04d", (i*7+g)%2000)), "v")
					}
				}
			}()
		}

		done := make(chan string, 1)

		go func() {
			for r := 0; r < 30; r++ {
				bad := ""
				_, err := walk(func(k []byte) error {
					if len(k) != 6 || string(k[:2]) != "w-" {
						bad = string(k)
					}

					return nil
				})

				if err != nil || bad != "" {
					done <- fmt.Sprintf("walk %d: error %v, foreign key %q", r, err, bad)

					return
				}
			}

			done <- ""
		}()

		var res string

		select {
		case res = <-done:
		case <-time.After(30 * time.Second):
			res = "TIMEOUT"
		}

		close(stop)

		if res == "TIMEOUT" {
			c.Failf("walk-never-returns", "30 walks over 2000 entries (adapter=%v) alongside %d writers did not complete within 30 s: a walk is stuck", viaAdapter, writers)
		}

		wg.Wait()
		c.Assert(res == "", "walk-phantom-key", "%s", res)
	})
}
