package harness

import (
	"context"
	"errors"
	"fmt"
	"sort"
	"strings"
	"sync"
	"testing"
	"time"

	"github.com/bool64/cache"
)

const c15Rule = "generated incidence structures: 1-3 cache names x 1-3 real caches each (ShardedMap/SyncMap behind a fault wrapper), 3-30 ops (writes to one/all caches of a name, AddLabels with 1-3 labels incl. duplicates and repeated labelling, fault-free intermediate invalidations) and a final InvalidateByLabels with 0-4 labels in any order incl. duplicates; " +
	"for every structure the failing Delete position is ENUMERATED 0..#deletes of the final call, each followed by a fault-free retry, and EVERY Delete position is enumerated once more for a re-entrant AddLabels of an invalidated label (the index mutex is not held while deleters run); oracle: nil => every currently labelled key absent from all caches of its name, keys never labelled with those labels untouched, count == entries actually removed; " +
	"failure => no panic, the injected error returned, count == removed so far, retry removes every originally labelled key; non-trivial = a failure position behind >=2 already deleted keys of a label, or a key with >=2 invalidated labels, or a duplicate label argument"

// TestC15Labels: label invalidation is complete, precise and loses nothing on failure.
func TestC15Labels(t *testing.T) {
	runCheck(t, "C15", "C15Labels", c15Rule, propLabels)
}

type lblOp struct {
	kind   int // 0 write one, 1 write all, 2 add labels, 3 invalidate
	name   int
	cache  int
	key    string
	labels []string
}

type lblStructure struct {
	ncaches     []int // per name
	kinds       [][]string
	ops         []lblOp
	final       []string
	ctorDeleter bool // the first cache of name "default" is given to NewInvalidationIndex instead of AddCache
	orphan      bool // labels are also added under a cache name nobody registered a cache for (ignored by invalidations)
	ctxMode     int  // context of the invalidations: 0 background, 1 cancelled, 2 SkipRead+TTL (means nothing for a delete)
}

var (
	lblNames = []string{"default", "n2", "n3"}
	// labels that are prefixes of each other and keys that compensate: "l"+"1a" == "l1"+"a",
	// "l1"+"2a" == "l12"+"a", "l"+"2b" == "l2"+"b" (a (label, key) pair is not its concatenation)
	lblKeys   = []string{"a", "b", "1a", "2a", "2b", "f"}
	lblLabels = []string{"l1", "l2", "l", "l12"}
)

type faultDeleter struct {
	d      cache.Deleter
	calls  *int
	failAt *int
	err    error
	w      *lblWorld
}

func (f faultDeleter) Delete(ctx context.Context, key []byte) error {
	if f.w != nil && f.w.nestedRunning {
		return f.d.Delete(ctx, key) // deletes of a nested (re-entrant) invalidation are not positions of the outer one
	}

	f.w.mu.Lock() // deleters of different cache names may be called concurrently
	n := *f.calls
	*f.calls++
	f.w.mu.Unlock()

	if n == *f.failAt {
		return f.err
	}

	// Re-entrant client action at an enumerated position of a running invalidation: the index
	// mutex is not held while deleters run, so a (concurrent) AddLabels may land exactly here.
	if f.w != nil && f.w.injectArmed && n == f.w.injectAt && f.w.inject != nil {
		f.w.inject()
	}

	return f.d.Delete(ctx, key)
}

func drawLabels(c *Case, max int, min int) []string {
	n := c.Int("nlabels", min, max)
	out := make([]string, 0, n)

	for i := 0; i < n; i++ {
		out = append(out, lblLabels[c.Pick("label", len(lblLabels))])
	}

	return out
}

func drawLblStructure(c *Case) *lblStructure {
	st := &lblStructure{}
	nn := c.Weighted("names", 3, 2, 1) + 1

	for n := 0; n < nn; n++ {
		k := c.Weighted("caches", 3, 2, 1) + 1
		st.ncaches = append(st.ncaches, k)

		var kinds []string
		for i := 0; i < k; i++ {
			kinds = append(kinds, []string{kindSync, kindSharded}[c.Pick("kind", 2)])
		}

		st.kinds = append(st.kinds, kinds)
	}

	nops := c.Int("nops", 3, 30)
	for i := 0; i < nops; i++ {
		op := lblOp{kind: c.Weighted("op", 2, 4, 6, 1), name: c.Pick("name", nn)}
		op.key = lblKeys[c.Pick("key", len(lblKeys))]

		switch op.kind {
		case 0:
			op.cache = c.Pick("cache", st.ncaches[op.name])
		case 2:
			op.labels = drawLabels(c, 3, 1)
		case 3:
			op.labels = drawLabels(c, 2, 1)
		}

		st.ops = append(st.ops, op)
	}

	st.final = drawLabels(c, 4, 0)
	st.ctxMode = c.Weighted("invalidate-ctx", 4, 1, 1)
	st.ctorDeleter = c.Weighted("first-cache-via-constructor", 2, 1) == 1
	st.orphan = c.Weighted("labels-for-a-name-without-caches", 3, 1) == 1

	return st
}

// lblWorld is one execution of a structure.
type lblWorld struct {
	c       *Case
	st      *lblStructure
	idx     *cache.InvalidationIndex
	caches  [][]Backend
	calls   int
	failAt  int
	injErr  error
	current []map[string]map[string]bool // name -> label -> keys currently labelled
	ever    []map[string]map[string]bool
	// re-entrant AddLabels injected at delete call #injectAt of the final invalidation
	injectAt    int
	injectArmed bool // only the final invalidation of a run is subject to the injection
	inject      func()
	// a nested InvalidateByLabels running inside a deleter of the outer one
	nestedRunning bool
	nestedLabels  []string
	nestedCount   int
	mu            sync.Mutex
	during        []lblOp
}

func newLblWorld(c *Case, st *lblStructure) *lblWorld {
	w := &lblWorld{c: c, st: st, failAt: -1, injectAt: -1, injErr: errors.New("injected delete failure")}
	// the first cache of the "default" name may be handed to the constructor (what the backends' embedded
	// indexes do with themselves), every other cache is added with AddCache
	viaConstructor := st.ctorDeleter
	w.idx = nil

	cfg := cache.Config{ExpirationJitter: -1, DeleteExpiredJobInterval: farFuture, DeleteExpiredAfter: farFuture}

	for n := range st.ncaches {
		var row []Backend

		for i := 0; i < st.ncaches[n]; i++ {
			be := newCaseBackend(c, st.kinds[n][i], cfg)
			row = append(row, be)
			fd := faultDeleter{d: be.Deleter(), calls: &w.calls, failAt: &w.failAt, err: w.injErr, w: w}

			switch {
			case w.idx == nil && viaConstructor:
				w.idx = cache.NewInvalidationIndex(fd)
			case w.idx == nil:
				w.idx = cache.NewInvalidationIndex()
				w.idx.AddCache(lblNames[n], fd)
			default:
				w.idx.AddCache(lblNames[n], fd)
			}
		}

		w.caches = append(w.caches, row)
		w.current = append(w.current, map[string]map[string]bool{})
		w.ever = append(w.ever, map[string]map[string]bool{})
	}

	return w
}

// ctx is the context the invalidations run under.
func (w *lblWorld) ctx() context.Context {
	switch w.st.ctxMode {
	case 1:
		ctx, cancel := context.WithCancel(context.Background())
		cancel()

		return ctx
	case 2:
		return cache.WithTTL(cache.WithSkipRead(context.Background()), time.Minute, false)
	}

	return bg
}

func (w *lblWorld) snapshot() map[string]bool {
	s := map[string]bool{}

	for n, row := range w.caches {
		for i, be := range row {
			for _, k := range lblKeys {
				if r := be.Read(bg, []byte(k)); r.Err == nil {
					s[fmt.Sprintf("%d/%d/%s", n, i, k)] = true
				}
			}
		}
	}

	return s
}

// invalidate calls InvalidateByLabels (recovering panics) and applies the oracle.
// It returns the error of the call.
func (w *lblWorld) invalidate(labels []string, failAt int, trace bool) error {
	c := w.c
	before := w.snapshot()
	w.calls = 0
	w.failAt = failAt

	var (
		cnt      int
		err      error
		panicked interface{}
	)

	func() {
		defer func() { panicked = recover() }()

		cnt, err = w.idx.InvalidateByLabels(w.ctx(), labels...)
	}()

	w.failAt = -1
	after := w.snapshot()
	removed := 0

	for k := range before {
		if !after[k] {
			removed++
		}
	}

	for k := range after {
		c.Assert(before[k], "entry-appeared", "entry %s appeared during invalidation", k)
	}

	if trace {
		c.Tracef("InvalidateByLabels(%v) failAt=%d = (%d, %v) panic=%v; deletes issued %d, entries removed %d", labels, failAt, cnt, err, panicked, w.calls, removed)
	}

	c.Assert(panicked == nil, "invalidate-panic", "InvalidateByLabels(%v) with delete #%d failing panicked: %v", labels, failAt, panicked)
	c.Assert(cnt+w.nestedCount == removed, "count", "InvalidateByLabels(%v) failAt=%d returned count %d (+%d reported by a nested call), %d entries were actually removed", labels, failAt, cnt, w.nestedCount, removed)
	w.nestedCount = 0

	inL := map[string]bool{}
	for _, l := range labels {
		inL[l] = true
	}

	// labels invalidated by a nested call count for precision (their keys may legitimately go)
	precise := map[string]bool{}
	for l := range inL {
		precise[l] = true
	}

	for _, l := range w.nestedLabels {
		precise[l] = true
	}

	// keys never labelled (under this name) with any label of L must be untouched
	for n := range w.caches {
		for i := range w.caches[n] {
			for _, k := range lblKeys {
				id := fmt.Sprintf("%d/%d/%s", n, i, k)
				if !before[id] || after[id] {
					continue
				}

				labelled := false

				for l := range precise {
					if w.ever[n][l][k] {
						labelled = true
					}
				}

				c.Assert(labelled, "unlabelled-key-removed", "key %q in cache %s#%d was removed by InvalidateByLabels(%v) although it never carried any of these labels", k, lblNames[n], i, labels)
			}
		}
	}

	mergeDuring := func() {
		// labels added while the call was running are indexed from now on
		for _, op := range w.during {
			for _, l := range op.labels {
				if w.current[op.name][l] == nil {
					w.current[op.name][l] = map[string]bool{}
				}

				w.current[op.name][l][op.key] = true
			}
		}

		w.during = nil
	}

	failed := failAt >= 0 && failAt < w.calls
	if failed {
		c.Assert(errors.Is(err, w.injErr), "error-not-returned", "deleter failed but InvalidateByLabels returned (%d, %v)", cnt, err)
		mergeDuring()

		return err
	}

	c.Assert(err == nil, "unexpected-error", "InvalidateByLabels(%v) returned %v without an injected failure", labels, err)

	// completeness: every currently labelled key is gone from all caches of its name
	for n := range w.caches {
		for l := range inL {
			keys := make([]string, 0)
			for k := range w.current[n][l] {
				keys = append(keys, k)
			}

			sort.Strings(keys)

			for _, k := range keys {
				for i := range w.caches[n] {
					c.Assert(!after[fmt.Sprintf("%d/%d/%s", n, i, k)], "labelled-key-survived",
						"InvalidateByLabels(%v) = (%d, nil) but key %q labelled %q is still in cache %s#%d", labels, cnt, k, l, lblNames[n], i)
				}
			}

			delete(w.current[n], l)
		}
	}

	mergeDuring()

	return nil
}

// invalidateRelaxed invalidates labels and requires every key that was ever labelled with one of them
// (and not re-written since) to be gone; used after nested invalidations, where which call consumed
// which label depends on their interleaving.
func (w *lblWorld) invalidateRelaxed(labels []string) error {
	_, err := w.idx.InvalidateByLabels(bg, labels...)
	if err != nil {
		return err
	}

	// second pass: anything put back by a failed outer call is indexed again and goes now
	_, err = w.idx.InvalidateByLabels(bg, labels...)
	if err != nil {
		return err
	}

	after := w.snapshot()

	for n := range w.caches {
		for _, l := range labels {
			for k := range w.current[n][l] {
				for i := range w.caches[n] {
					w.c.Assert(!after[fmt.Sprintf("%d/%d/%s", n, i, k)], "lost-on-nested-invalidation",
						"key %q labelled %q in cache %s#%d survived the invalidations (final labels %v, nested %v): it was dropped from the index", k, l, lblNames[n], i, w.st.final, w.nestedLabels)
				}
			}
		}
	}

	return nil
}

// run executes the structure; finalFail is the failing delete position of the final call (-1 none).
// It returns the number of Delete calls the final invalidation issued.
func (w *lblWorld) run(finalFail int, trace bool) int {
	c := w.c

	if w.st.orphan {
		// nothing is registered under this name: its labels concern no cache and no invalidation
		w.idx.AddLabels("nobody-registered-this", []byte("a"), lblLabels[0], lblLabels[1])
		c.Class("labels-for-a-name-without-caches")
	}

	for _, op := range w.st.ops {
		switch op.kind {
		case 0:
			_ = w.caches[op.name][op.cache].Write(bg, []byte(op.key), "v")
		case 1:
			for _, be := range w.caches[op.name] {
				_ = be.Write(bg, []byte(op.key), "v")
			}
		case 2:
			k, poison := poisonKey([]byte(op.key))
			w.idx.AddLabels(lblNames[op.name], k, op.labels...)
			poison()

			for _, l := range op.labels {
				for _, m := range []map[string]map[string]bool{w.current[op.name], w.ever[op.name]} {
					if m[l] == nil {
						m[l] = map[string]bool{}
					}

					m[l][op.key] = true
				}
			}
		case 3:
			_ = w.invalidate(op.labels, -1, false)
		}

		if trace {
			c.Tracef("op %+v", op)
		}
	}

	// originally labelled keys of the final call
	orig := make([]map[string]bool, len(w.caches))

	for n := range w.caches {
		orig[n] = map[string]bool{}

		for _, l := range w.st.final {
			for k := range w.current[n][l] {
				orig[n][k] = true
			}
		}
	}

	w.injectArmed = true
	err := w.invalidate(w.st.final, finalFail, trace)
	w.injectArmed = false
	issued := w.calls

	if err != nil {
		// recovery: a fault-free retry removes every originally labelled key
		rerr := w.invalidate(w.st.final, -1, trace)
		c.Assert(rerr == nil, "retry-failed", "fault-free retry returned %v", rerr)

		after := w.snapshot()

		for n := range w.caches {
			for k := range orig[n] {
				for i := range w.caches[n] {
					c.Assert(!after[fmt.Sprintf("%d/%d/%s", n, i, k)], "lost-on-failure",
						"delete #%d failed during InvalidateByLabels(%v); after a fault-free retry key %q is still in cache %s#%d (dropped from the index)", finalFail, w.st.final, k, lblNames[n], i)
				}
			}
		}
	}

	return issued
}

func propLabels(c *Case) {
	st := drawLblStructure(c)

	dup := false
	seen := map[string]bool{}

	for _, l := range st.final {
		if seen[l] {
			dup = true
		}

		seen[l] = true
	}

	if dup {
		c.Class("duplicate-label-argument")
		c.NonTrivial()
	}

	c.Tracef("names/caches %v, final labels %v", st.kinds, st.final)

	// fault-free run first (learns the number of Delete calls of the final invalidation)
	w := newLblWorld(c, st)
	issued := w.run(-1, true)

	multi := 0

	for n := range w.ever {
		perKey := map[string]int{}

		for _, l := range st.final {
			if seen[l] {
				for k := range w.ever[n][l] {
					perKey[k]++
				}
			}
		}

		for _, v := range perKey {
			if v >= 2 {
				multi++
			}
		}
	}

	if multi > 0 {
		c.Class("key-with-two-invalidated-labels")
		c.NonTrivial()
	}

	c.Class("deletes=" + bucket(issued))

	if issued >= 3 {
		c.NonTrivial()
	}

	// enumerate every failing position
	for p := 0; p < issued; p++ {
		w := newLblWorld(c, st)
		w.run(p, false)
	}

	// enumerate every position for a re-entrant AddLabels (a label of the running invalidation is
	// attached to another key while the deleters run), followed by a second invalidation
	if issued > 0 && len(st.final) > 0 {
		inj := lblOp{kind: 2, name: c.Pick("inject.name", len(st.ncaches)), key: lblKeys[c.Pick("inject.key", len(lblKeys))]}
		inj.labels = []string{st.final[c.Pick("inject.label", len(st.final))]}

		if c.Bool("inject.second-label") {
			inj.labels = append(inj.labels, lblLabels[c.Pick("inject.label2", len(lblLabels))])
		}

		mkInject := func(w *lblWorld) func() {
			return func() {
				k, poison := poisonKey([]byte(inj.key))
				w.idx.AddLabels(lblNames[inj.name], k, inj.labels...)
				poison()

				w.during = append(w.during, inj)

				for _, l := range inj.labels {
					if w.ever[inj.name][l] == nil {
						w.ever[inj.name][l] = map[string]bool{}
					}

					w.ever[inj.name][l][inj.key] = true
				}

				w.inject = nil
			}
		}

		combos := 0

		for p := 0; p < issued; p++ {
			w := newLblWorld(c, st)
			w.injectAt = p
			w.inject = mkInject(w)
			w.run(-1, false)

			// everything labelled before or during the first call is gone after a second call
			err := w.invalidate(append(append([]string{}, st.final...), inj.labels...), -1, false)
			c.Assert(err == nil, "unexpected-error", "second invalidation returned %v", err)

			// the same with a later deleter failing: the key labelled during the failed call must stay
			// indexed like every other unprocessed key, so that retries remove it
			for f := p + 1; f < issued && combos < 60; f++ {
				combos++

				w := newLblWorld(c, st)
				w.injectAt = p
				w.inject = mkInject(w)
				w.run(f, false)

				err := w.invalidate(append(append([]string{}, st.final...), inj.labels...), -1, false)
				c.Assert(err == nil, "unexpected-error", "invalidation after recovery returned %v", err)
			}
		}

		c.Class("reentrant-addlabels-enumerated")

		// a second InvalidateByLabels entering while the first one runs (from inside a deleter), at
		// every position, alone and followed by a failing position; afterwards everything labelled with
		// any of the labels of either call must be gone
		nested := drawLabels(c, 2, 1)
		all := append(append([]string{}, st.final...), nested...)
		combos = 0

		for p := 0; p < issued; p++ {
			for f := -1; f < issued && combos < 80; f++ {
				if f >= 0 && f <= p {
					continue
				}

				combos++

				w := newLblWorld(c, st)
				w.injectAt = p
				w.nestedLabels = nested
				w.inject = func() {
					w.inject = nil
					w.nestedRunning = true
					w.nestedCount, _ = w.idx.InvalidateByLabels(bg, nested...)
					w.nestedRunning = false
				}
				w.run(f, false)

				// the nested call consumed its labels as far as it could see them; a final call settles the rest
				for n := range w.current {
					for _, l := range nested {
						_ = n
						_ = l
					}
				}

				err := w.invalidateRelaxed(all)
				c.Assert(err == nil, "unexpected-error", "invalidation after a nested one returned %v", err)
			}
		}

		c.Class("reentrant-invalidate-enumerated")
	}

	st2 := statsFor("C15", "C15Labels", c15Rule)
	st2.mu.Lock()
	st2.Extra["fault_positions_enumerated"] += issued
	st2.mu.Unlock()
}

func bucket(n int) string {
	switch {
	case n == 0:
		return "0"
	case n <= 2:
		return "1-2"
	case n <= 5:
		return "3-5"
	default:
		return ">5"
	}
}

var _ = strings.Join
