package harness

import (
	"context"
	"errors"
	"fmt"
	"reflect"
	"sort"
	"time"

	"github.com/bool64/cache"
)

// mapDriver applies each operation to a real backend and to refMap and compares the results.
type mapDriver struct {
	c   *Case
	be  Backend
	ref *refMap
	ntk int
	// lossy marks keys whose entry may have been displaced by a colliding key (C09): a read may
	// find nothing, but never somebody else's entry.
	lossy map[string]bool
	// family maps a key to the id of its hash-collision family (only set by C09).
	family map[string]int
	// evictable: a count limit is configured, cleanupCycle may evict (C18 accounts for evictions separately)
	evictable bool
	evicted   float64
	// counters for C18 (model side)
	cnt modelCounts
	// keys currently carrying the invalidation label "L" in the backend's own index
	labelled map[string]bool
	bulked   bool // a bulk population was written (at most one per case)
	bulkKeys [][]byte
	noNoise  bool // suppress per-operation context draws (sweeps over all keys)
}

// noiseCtx returns base wrapped in a context that the documented API gives no meaning for the
// operation at hand: already cancelled, past its deadline, or carrying an unrelated option.
// Backends are in-memory maps; nothing says an operation may fail or change because of them.
func (d *mapDriver) noiseCtx(base context.Context, op string) context.Context {
	if d.noNoise {
		return base
	}

	switch d.c.Weighted("ctx-noise", 8, 1, 1, 1) {
	case 1:
		ctx, cancel := context.WithCancel(base)
		cancel()
		d.c.Class("ctx=cancelled:" + op)

		return ctx
	case 2:
		ctx, cancel := context.WithDeadline(base, time.Now().Add(-time.Second))
		d.c.OnClose(0, cancel)
		d.c.Class("ctx=deadline-passed:" + op)

		return ctx
	case 3:
		if op == "read" || op == "write" {
			return base // SkipRead / TTL mean something there
		}

		d.c.Class("ctx=skipread+ttl:" + op)

		return cache.WithTTL(cache.WithSkipRead(base), time.Minute, false)
	}

	return base
}

// bulk writes n further keys in one go (spread over all shards, or all in the shard of "a").
func (d *mapDriver) bulk(n int, sameShard bool, ttl time.Duration) {
	d.bulked = true
	now := time.Now()

	var unsettled []string

	for i := 0; i < n; i++ {
		var key []byte
		if sameShard {
			key = sameShardPool[i%len(sameShardPool)]
		} else {
			key = []byte(fmt.Sprintf("bulk-%05d", i))
		}

		if sameShard && i >= len(sameShardPool) {
			break
		}

		d.bulkKeys = append(d.bulkKeys, key)
		val := "bulk:" + string(key)
		err := d.be.Write(ttlCtx(ttl), key, val)
		d.c.Assert(err == nil, "write-error", "bulk Write(%s) returned %v", keyName(key), err)
		d.cnt.writes++

		e := d.ref.write(now, key, val, ttl)
		if !e.settled {
			unsettled = append(unsettled, string(key))
		}
	}

	if len(unsettled) > 0 {
		_, _ = d.be.Walk(func(k []byte, _ interface{}, exp time.Time) error {
			if e := d.ref.m[string(k)]; e != nil && !e.settled {
				ns := exp.UnixNano()
				d.c.Assert(ns >= e.lo && ns <= e.hi, "jitter-band", "key %s: expiry %d outside permitted band [%d, %d]", keyName(k), ns, e.lo, e.hi)
				e.e, e.settled = ns, true
			}

			return nil
		})

		for _, k := range unsettled {
			d.c.Assert(d.ref.m[k].settled, "walk-missing", "key %s just written is not reported by Walk", keyName([]byte(k)))
		}
	}

	d.c.Tracef("bulk: %d keys written (same shard=%v, ttl=%v)", n, sameShard, ttl)
	d.c.Class(fmt.Sprintf("bulk=%d", n))
}

// bulkDelete deletes the given share of the bulk population, key by key.
func (d *mapDriver) bulkDelete(share float64) {
	n := int(float64(len(d.bulkKeys)) * share)
	for _, k := range d.bulkKeys[:n] {
		d.del(k)
	}

	d.bulkKeys = d.bulkKeys[n:]
	d.c.Tracef("bulk: %d keys of the population deleted one by one", n)
	d.c.Class("bulk-then-mass-delete")
}

// churn writes and deletes one key r times (long histories leave the model where it was).
func (d *mapDriver) churn(key []byte, r int) {
	for i := 0; i < r; i++ {
		err := d.be.Write(bg, key, "churn")
		d.c.Assert(err == nil, "write-error", "churn Write returned %v", err)

		err = d.be.Delete(bg, key)
		d.c.Assert(err == nil, "delete-present", "churn round %d: Delete(%s) right after Write = %v", i, keyName(key), err)
	}

	d.cnt.writes += float64(r)
	d.cnt.deletes += float64(r)
	d.ref.del(key)
	delete(d.lossy, string(key))
	d.c.Tracef("churn: %d x (Write, Delete) of %s", r, keyName(key))
	d.c.Class(fmt.Sprintf("churn=%d", r))
}

type modelCounts struct {
	reads, hit, miss, expired, writes, deletes float64
	// entries that were already expired when an ExpireAll ran: whether ExpireAll "touches" (and counts) them is open
	expiredSlack float64
}

var bg = context.Background()

func newMapDriver(c *Case, be Backend, cfgTTL time.Duration, cfgJitter float64) *mapDriver {
	return &mapDriver{c: c, be: be, ref: newRefMap(cfgTTL, cfgJitter), lossy: map[string]bool{}}
}

func (d *mapDriver) token(key []byte) string {
	d.ntk++

	return fmt.Sprintf("tok%d@%s", d.ntk, keyName(key))
}

func valEq(generic bool, got, want interface{}) bool {
	if generic {
		return gstr(got) == gstr(want)
	}

	return reflect.DeepEqual(got, want)
}

// sliceVal is a value type that cannot be compared with == (a panic if the library tries).
type sliceVal struct {
	B []byte
	S string
}

// value returns a fresh unique value for key; for interface{} backends now and then one of an
// uncomparable dynamic type (slice, map, struct holding a slice): "values" are opaque to a cache.
func (d *mapDriver) value(key []byte) interface{} {
	tok := d.token(key)
	if d.be.Generic() {
		return tok
	}

	switch d.c.Weighted("valshape", 6, 1, 1, 1) {
	case 1:
		d.c.Class("value=slice")

		return []string{tok}
	case 2:
		d.c.Class("value=map")

		return map[string]int{tok: d.ntk}
	case 3:
		d.c.Class("value=struct-with-slice")

		return sliceVal{B: []byte(tok), S: tok}
	}

	return tok
}

func ttlCtx(ttl time.Duration) context.Context {
	if ttl == 0 {
		return bg
	}

	return cache.WithTTL(bg, ttl, false)
}

func (d *mapDriver) write(key []byte, val interface{}, ttl time.Duration, viaStore bool) {
	k, poison := poisonKey(key)
	now := time.Now()

	if viaStore {
		d.be.Store(k, val)
		d.c.Tracef("Store(%s, %v)", keyName(key), val)
	} else {
		err := d.be.Write(d.noiseCtx(ttlCtx(ttl), "write"), k, val)
		d.c.Tracef("Write(%s, %v, ttl=%v) = %v", keyName(key), val, ttl, err)
		d.c.Assert(err == nil, "write-error", "Write(%s) returned %v", keyName(key), err)
	}

	poison()

	d.cnt.writes++
	e := d.ref.write(now, key, val, ttl)
	delete(d.lossy, string(key))

	if fam, ok := d.family[string(key)]; ok && d.be.Kind() != kindSync {
		// Backends indexed by the 64-bit hash may drop the colliding entry (a miss is allowed).
		for other := range d.ref.m {
			if f2, ok2 := d.family[other]; ok2 && f2 == fam && other != string(key) {
				d.lossy[other] = true
				d.c.Class("collision-displacement")
			}
		}
	}

	if !e.settled {
		d.settle(key, e)
	}
}

// settle learns the jittered expiry of key from Walk and checks it against the permitted band.
func (d *mapDriver) settle(key []byte, e *refEntry) {
	found := false

	_, err := d.be.Walk(func(k []byte, _ interface{}, exp time.Time) error {
		if string(k) == string(key) {
			found = true
			ns := exp.UnixNano()
			d.c.Assert(ns >= e.lo && ns <= e.hi, "jitter-band",
				"key %s: expiry %d outside permitted band [%d, %d]", keyName(key), ns, e.lo, e.hi)
			e.e = ns
			e.settled = true
		}

		return nil
	})
	d.c.Assert(err == nil, "walk-error", "Walk returned %v", err)
	d.c.Assert(found, "walk-missing", "key %s just written is not reported by Walk", keyName(key))
}

func (d *mapDriver) read(key []byte, skip, viaLoad bool) {
	k, poison := poisonKey(key)
	now := time.Now()
	kind, e := d.ref.read(now, key)
	lossy := d.lossy[string(key)]

	if lossy {
		d.c.Class("displaced-key-read")
		d.c.NonTrivial()
	}

	if viaLoad {
		v, ok := d.be.Load(k)
		poison()
		d.c.Tracef("Load(%s) = %v, %v   model: %v", keyName(key), v, ok, kind)
		d.countRead(ok, !ok && (kind == rkExpired || e.atBoundary(now)) && !lossy)

		if lossy && !ok {
			// Load cannot tell "displaced" from "expired": the entry stays possibly-lost
			return
		}

		if kind == rkHit && e.atBoundary(now) && !ok {
			return // exactly at the expiry instant
		}

		if kind == rkHit {
			d.c.Assert(ok && valEq(d.be.Generic(), v, e.val), "load-hit",
				"Load(%s) = (%v,%v), model has fresh value %v", keyName(key), v, ok, e.val)
		} else {
			d.c.Assert(!ok && valEq(d.be.Generic(), v, nil), "load-miss",
				"Load(%s) = (%v,%v), model says %v", keyName(key), v, ok, kind)
		}

		return
	}

	ctx := bg
	if skip {
		ctx = cache.WithSkipRead(ctx)
	}

	ctx = d.noiseCtx(ctx, "read")
	r := d.be.Read(ctx, k)
	poison()
	d.c.Tracef("Read(%s, skip=%v) = %v, %v   model: %v", keyName(key), skip, r.Val, r.Err, kind)

	if skip {
		d.c.Assert(errors.Is(r.Err, cache.ErrNotFound) && valEq(d.be.Generic(), r.Val, nil), "skipread",
			"Read under SkipRead of %s = (%v, %v), want ErrNotFound", keyName(key), r.Val, r.Err)

		return
	}

	d.countRead(r.Err == nil, r.Expired)

	if lossy && errors.Is(r.Err, cache.ErrNotFound) {
		d.forget(key)

		return
	}

	if e != nil && r.Expired {
		e.observeExpiry(r.ExpAt.UnixNano())
	}

	if e.atBoundary(now) && kind == rkHit && r.Expired {
		kind = rkExpired // the read happened exactly at the expiry instant: either outcome is allowed
		d.c.Class("read-exactly-at-expiry-instant")
	}

	switch kind {
	case rkNotFound:
		d.c.Assert(errors.Is(r.Err, cache.ErrNotFound) && !r.Expired, "read-missing",
			"Read(%s) = (%v, %v), model: key absent, want ErrNotFound", keyName(key), r.Val, r.Err)
		d.c.Assert(valEq(d.be.Generic(), r.Val, nil), "read-missing-val",
			"Read(%s) returned non-zero value %v with error", keyName(key), r.Val)
	case rkHit:
		d.c.Assert(r.Err == nil, "read-fresh", "Read(%s) = (%v, %v), model: fresh value %v (E=%d now=%d)",
			keyName(key), r.Val, r.Err, e.val, e.e, now.UnixNano())
		d.c.Assert(valEq(d.be.Generic(), r.Val, e.val), "read-value",
			"Read(%s) = %v, model: last written value %v", keyName(key), r.Val, e.val)
	case rkExpired:
		d.c.Assert(r.Err != nil && errors.Is(r.Err, cache.ErrExpired), "read-expired",
			"Read(%s) = (%v, %v), model: expired at %d (now %d), want ErrExpired", keyName(key), r.Val, r.Err,
			e.e, now.UnixNano())
		d.c.Assert(r.Expired, "read-expired-item", "Read(%s): expiry error %T does not carry the expired item",
			keyName(key), r.Err)
		d.c.Assert(valEq(d.be.Generic(), r.ExpVal, e.val), "read-expired-value",
			"Read(%s): expired item value %v, model: %v", keyName(key), r.ExpVal, e.val)
		d.c.Assert(r.ExpAt.UnixNano() == e.e, "read-expired-at",
			"Read(%s): ExpiredAt %d, model: %d", keyName(key), r.ExpAt.UnixNano(), e.e)
	}
}

func (d *mapDriver) countRead(hit, expired bool) {
	d.cnt.reads++

	switch {
	case hit:
		d.cnt.hit++
	case expired:
		d.cnt.expired++
	default:
		d.cnt.miss++
	}
}

func (d *mapDriver) forget(key []byte) {
	delete(d.ref.m, string(key))
	delete(d.lossy, string(key))
}

func (d *mapDriver) del(key []byte) {
	k, poison := poisonKey(key)
	err := d.be.Delete(d.noiseCtx(bg, "delete"), k)
	poison()

	present := d.ref.del(key)
	lossy := d.lossy[string(key)]
	delete(d.lossy, string(key))

	if lossy {
		d.c.Class("displaced-key-deleted")
		d.c.NonTrivial()
	}

	d.c.Tracef("Delete(%s) = %v   model: present=%v", keyName(key), err, present)

	if err == nil {
		d.cnt.deletes++
	}

	if lossy && errors.Is(err, cache.ErrNotFound) {
		return
	}

	if present {
		d.c.Assert(err == nil, "delete-present", "Delete(%s) = %v, model: key present", keyName(key), err)
	} else {
		d.c.Assert(errors.Is(err, cache.ErrNotFound), "delete-missing",
			"Delete(%s) = %v, model: key absent, want ErrNotFound", keyName(key), err)
	}
}

// label attaches the invalidation label "L" to key through the backend's index (the key buffer is
// the caller's: it is overwritten right after the call).
func (d *mapDriver) label(key []byte) {
	k, poison := poisonKey(key)
	d.be.Index().AddInvalidationLabels(k, "L")
	poison()

	if d.labelled == nil {
		d.labelled = map[string]bool{}
	}

	d.labelled[string(key)] = true
	d.c.Tracef("AddInvalidationLabels(%s, L)", keyName(key))
	d.c.Class("label-added")
}

// invalidate removes every labelled key; the labels are consumed.
func (d *mapDriver) invalidate() {
	n, err := d.be.Index().InvalidateByLabels(d.noiseCtx(bg, "invalidate"), "L")

	removed, uncertain := 0, false

	for k := range d.labelled {
		if d.lossy[k] {
			uncertain = true
		}

		if d.ref.del([]byte(k)) {
			removed++
		}

		delete(d.lossy, k)
	}

	d.c.Tracef("InvalidateByLabels(L) = (%d, %v)   model: %d labelled keys, %d present", n, err, len(d.labelled), removed)
	d.c.Assert(err == nil, "invalidate-error", "InvalidateByLabels returned %v", err)

	if uncertain {
		d.cnt.deletes += float64(n)
	} else {
		d.c.Assert(n == removed, "invalidate-count", "InvalidateByLabels(L) reported %d removed entries, the model removed %d (labelled %d)", n, removed, len(d.labelled))
		d.cnt.deletes += float64(removed)
	}

	if len(d.labelled) > 0 {
		d.c.Class("invalidate-labelled")
	}

	d.labelled = nil
}

func (d *mapDriver) expireAll() {
	now := time.Now()
	d.be.ExpireAll(bg)

	// "entries touched by ExpireAll" are counted as expired: every fresh or never-expiring entry is
	// touched; an entry that had expired before and carries the ExpireAll instant now was touched as
	// well; one that keeps its older expiry was visited but not changed - whether that is "touched"
	// is open, it may or may not be counted.
	after := map[string]int64{}
	_, _ = d.be.Walk(func(k []byte, _ interface{}, exp time.Time) error {
		after[string(k)] = exp.UnixNano()

		return nil
	})

	counted := 0

	// an entry displaced by a colliding key (possibly-lost, and not there any more) cannot be touched
	for k := range d.lossy {
		if _, seen := after[k]; !seen {
			d.forget([]byte(k))
			d.c.Class("expireall-after-displacement")
		}
	}

	for k, e := range d.ref.m {
		a, seen := after[k]

		switch {
		case e.e != 0 && e.e < now.UnixNano():
			if !seen {
				d.cnt.expiredSlack++ // possibly displaced by a colliding key
				counted++
			} else if a == now.UnixNano() {
				counted++
				d.c.Class("expireall-restamps-expired-entry")
			} else {
				counted++
				d.cnt.expiredSlack++
			}
		case e.e == now.UnixNano():
			// expires at this very instant anyway: touched or not cannot be told
			d.cnt.expiredSlack++
			counted++
		default:
			counted++
		}
	}

	n := d.ref.expireAll(now)
	d.cnt.expired += float64(counted)
	d.c.Tracef("ExpireAll() at %d (%d entries, %d touched)", now.UnixNano(), n, counted)
}

func (d *mapDriver) deleteAll() {
	if len(d.lossy) > 0 {
		// entries displaced by a colliding key are not there to be removed (and counted)
		present := map[string]bool{}
		_, _ = d.be.Walk(func(k []byte, _ interface{}, _ time.Time) error {
			present[string(k)] = true

			return nil
		})

		for k := range d.lossy {
			if !present[k] {
				d.forget([]byte(k))
			}
		}
	}

	d.be.DeleteAll(bg)
	n := d.ref.deleteAll()
	d.cnt.deletes += float64(n)
	d.lossy = map[string]bool{}
	d.c.Tracef("DeleteAll() (%d entries)", n)
}

type walkRow struct {
	key string
	val interface{}
	e   int64
}

// compareAll compares Len and the Walk multiset with the model.
func (d *mapDriver) compareAll() {
	var rows []walkRow

	n, err := d.be.Walk(func(k []byte, v interface{}, exp time.Time) error {
		e := exp.UnixNano()
		if exp.Equal(time.Unix(0, 0)) {
			e = 0
		}

		rows = append(rows, walkRow{key: string(k), val: v, e: e})

		return nil
	})
	d.c.Tracef("Walk() = %d, %v; Len() = %d   model: %d entries", n, err, d.be.Len(), len(d.ref.m))
	d.c.Assert(err == nil, "walk-error", "Walk returned %v", err)
	d.c.Assert(n == len(rows), "walk-count", "Walk returned %d but visited %d entries", n, len(rows))

	seen := map[string]bool{}

	for _, r := range rows {
		d.c.Assert(!seen[r.key], "walk-dup", "Walk visited key %s twice", keyName([]byte(r.key)))
		seen[r.key] = true

		e, ok := d.ref.m[r.key]
		d.c.Assert(ok, "walk-phantom", "Walk reports key %s that the model does not hold", keyName([]byte(r.key)))
		d.c.Assert(valEq(d.be.Generic(), r.val, e.val), "walk-value", "Walk: key %s has value %v, model %v",
			keyName([]byte(r.key)), r.val, e.val)
		e.observeExpiry(r.e)
		d.c.Assert(r.e == e.e, "walk-expiry", "Walk: key %s expires at %d, model %d", keyName([]byte(r.key)), r.e, e.e)
	}

	missing := []string{}

	for k := range d.ref.m {
		if !seen[k] && !d.lossy[k] {
			missing = append(missing, keyName([]byte(k)))
		}
	}

	sort.Strings(missing)
	d.c.Assert(len(missing) == 0, "walk-missing", "Walk did not report keys %v held by the model", missing)

	for k := range d.ref.m {
		if !seen[k] && d.lossy[k] {
			d.forget([]byte(k))
		}
	}

	l := d.be.Len()
	d.c.Assert(l == len(d.ref.m), "len", "Len() = %d, model holds %d entries", l, len(d.ref.m))
}

// walkAbort runs a Walk whose callback fails on its (k+1)-th invocation.
func (d *mapDriver) walkAbort(k int) {
	stop := errors.New("stop walking")
	calls := 0
	seen := map[string]bool{}

	n, err := d.be.Walk(func(key []byte, _ interface{}, _ time.Time) error {
		calls++
		d.c.Assert(!seen[string(key)], "walk-dup", "Walk visited key %s twice", keyName(key))
		seen[string(key)] = true

		if calls == k+1 {
			return stop
		}

		return nil
	})

	d.c.Tracef("Walk(abort after %d) = %d, %v (callback ran %d times, %d entries held)", k, n, err, calls, len(d.ref.m))
	d.c.Class("walk-aborted")

	if len(d.ref.m)-len(d.lossy) > k {
		d.c.Assert(errors.Is(err, stop) && calls == k+1, "walk-abort", "Walk with a callback failing on call %d returned (%d, %v) after %d callback invocations", k+1, n, err, calls)
		d.c.Assert(n == k, "walk-abort-count", "aborted Walk reports %d processed entries, %d callbacks succeeded", n, k)
	} else if len(d.lossy) == 0 {
		d.c.Assert(err == nil && n == len(d.ref.m) && calls == n, "walk-count", "Walk over %d entries returned (%d, %v) with %d callbacks", len(d.ref.m), n, err, calls)
	}
}

// cleanupCycle runs one synchronous janitor cycle; entries it evicted are dropped from the model
// (which ones go is C12's subject, here only the accounting matters).
func (d *mapDriver) cleanupCycle() {
	before := len(d.ref.m)
	d.be.Cleanup()

	present := map[string]bool{}
	_, _ = d.be.Walk(func(k []byte, _ interface{}, _ time.Time) error {
		present[string(k)] = true

		return nil
	})

	for k := range d.ref.m {
		if !present[k] {
			delete(d.ref.m, k)
			d.evicted++
		}
	}

	d.c.Tracef("cleanup cycle: %d -> %d entries", before, len(d.ref.m))
	d.c.Class("cleanup-cycle")
}
