package harness

import (
	"bytes"
	"fmt"
	"time"

	"github.com/bool64/cache"
)

// scenOpts bounds what the Failover scenario generator may produce.
type scenOpts struct {
	maxKeys     int
	minGets     int
	maxGets     int
	skipRead    bool
	callerTTLs  []time.Duration
	faults      int
	clock       int
	external    int
	forceCfg    func(cfg *foCfg)
	initStates  []int // allowed initial key states
	prefail     bool  // may pre-populate the failure cache
	postActions bool  // generated post-return actions (buffer overwrite with another key, cancel)
	builderTTL  bool
	ttlCells    bool // caller may pass an explicit zero TTL cell; contexts may carry deadlines / be cancelled early
	failPct     int
	keys        [][]byte // key alphabet (default scenKeys)
	errKinds    bool     // failing builders may return errors wrapping context / cache sentinel errors
	nested      bool     // builders may call Get for a later key of the scenario (acyclic dependencies)
	restorePrep bool     // the initial backend state may arrive through Restore of another instance's dump
	extCleanup  bool     // external ops may run a cleanup cycle of the real backend and write same-shard neighbour keys
}

const (
	ksAbsent = iota
	ksFresh
	ksStaleRecent
	ksStaleOld
)

var ksNames = []string{"absent", "fresh", "stale-recent", "stale-old"}

var scenKeys = [][]byte{[]byte("k1"), []byte("k2"), []byte("k3")}

func drawFoCfg(c *Case) foCfg {
	cfg := foCfg{
		variant:    c.Pick("variant", nVariants),
		syncUpdate: c.Bool("SyncUpdate"),
		syncRead:   c.Bool("SyncRead"),
		failHard:   c.Bool("FailHard"),
		backendTTL: time.Hour,
	}
	cfg.maxStaleness = []time.Duration{0, 30 * time.Second, time.Hour}[c.Pick("MaxStaleness", 3)]
	cfg.failedUpdateTTL = []time.Duration{0, -1, 5 * time.Second, 10 * time.Minute}[c.Pick("FailedUpdateTTL", 4)]
	cfg.updateTTL = []time.Duration{0, time.Second, time.Hour}[c.Pick("UpdateTTL", 3)]
	cfg.logger = []int{2, 0, 1}[c.Pick("logger", 3)]
	cfg.stats = c.Weighted("stats", 1, 1) == 1
	cfg.observeMut = c.Weighted("ObserveMutability", 3, 1) == 1
	cfg.boxVals = cfg.variant != 2 && c.Weighted("boxed-values", 3, 1) == 1
	cfg.noiseBackendCfg = c.Weighted("BackendConfig-next-to-Backend", 4, 1) == 1
	cfg.backendDEA = []time.Duration{0, time.Second, time.Nanosecond}[c.Weighted("backend-DeleteExpiredAfter", 4, 1, 1)]
	cfg.siblingFailover = c.Weighted("sibling-failover", 5, 1) == 1

	return cfg
}

func (cfg foCfg) clockMenu() []time.Duration {
	return []time.Duration{
		time.Nanosecond, time.Second, cfg.effUpdateTTL() + 1,
		time.Duration(float64(cfg.effFailedTTL())*1.06) + 1, cfg.maxStaleness + 1, 2 * time.Hour,
	}
}

type scenario struct {
	viaRestore bool     // initial entries are written to another instance and restored from its dump
	keys       [][]byte // key alphabet of the scenario (scenKeys unless overridden)
	cfg        foCfg
	nkeys      int
	states     []int
	ages       []time.Duration
	prefail    []bool
	gets       []*getSpec
}

func drawScenario(c *Case, o scenOpts) *scenario {
	sc := &scenario{cfg: drawFoCfg(c), keys: o.keys}
	if sc.keys == nil {
		sc.keys = scenKeys
	}

	if o.forceCfg != nil {
		o.forceCfg(&sc.cfg)
	}

	cfg := sc.cfg
	sc.nkeys = c.Int("nkeys", 1, o.maxKeys)

	states := o.initStates
	if states == nil {
		states = []int{ksAbsent, ksFresh, ksStaleRecent, ksStaleOld}
	}

	for k := 0; k < sc.nkeys; k++ {
		st := states[c.Pick("state", len(states))]
		if st == ksStaleOld && cfg.maxStaleness == 0 {
			st = ksStaleRecent
		}

		var age time.Duration

		switch st {
		case ksStaleRecent:
			if cfg.maxStaleness > 0 {
				age = []time.Duration{time.Nanosecond, cfg.maxStaleness / 2, cfg.maxStaleness - 1}[c.Pick("age", 3)]
			} else {
				age = []time.Duration{time.Nanosecond, time.Hour}[c.Pick("age", 2)]
			}
		case ksStaleOld:
			age = cfg.maxStaleness + []time.Duration{0, 1, time.Hour}[c.Pick("age", 3)]
		}

		sc.states = append(sc.states, st)
		sc.ages = append(sc.ages, age)
		sc.prefail = append(sc.prefail, o.prefail && cfg.failedUpdateTTL != -1 && c.Weighted("prefail", 4, 1) == 1)
	}

	sc.viaRestore = o.restorePrep && c.Weighted("initial-state-via-restore", 3, 1) == 1

	n := c.Int("ngets", o.minGets, o.maxGets)
	ttls := o.callerTTLs
	if ttls == nil {
		ttls = []time.Duration{0, time.Hour, time.Nanosecond, -1}
	}

	failPct := o.failPct
	if failPct == 0 {
		failPct = 30
	}

	for i := 0; i < n; i++ {
		ki := c.Pick("getkey", sc.nkeys)
		g := &getSpec{idx: i, key: sc.keys[ki]}
		g.ttl = ttls[c.Pick("ttl", len(ttls))]
		g.buildFails = c.Weighted("buildFails", 100-failPct, failPct) == 1

		if g.buildFails && o.errKinds {
			g.errKind = c.Weighted("errKind", 4, 1, 1, 1, 1, 1, 1)
		}

		if o.skipRead {
			g.skipRead = c.Weighted("skipRead", 9, 1) == 1
		}

		if o.builderTTL {
			nb := c.Weighted("nBuilderTTL", 5, 3, 1, 1)
			for j := 0; j < nb; j++ {
				g.builderTTL = append(g.builderTTL, []time.Duration{0, 10 * time.Minute, 3 * time.Hour, -1, time.Nanosecond}[c.Pick("builderTTL", 5)])
			}
		}

		if o.ttlCells {
			if g.ttl == 0 {
				g.ttlCell = c.Bool("zero-cell")
			}

			g.cancelBefore = c.Weighted("cancel-before", 5, 1) == 1
			g.deadline = c.Weighted("deadline", 3, 1) == 1
		}

		if o.nested && ki+1 < sc.nkeys && c.Weighted("nested-get-in-builder", 4, 1) == 1 {
			g.nestedKey = sc.keys[ki+1+c.Pick("nested-key", sc.nkeys-ki-1)]
			c.Class("builder-calls-Get-for-another-key")
		}

		if o.postActions {
			g.sideWrite = c.Weighted("builder-side-write", 4, 1) == 1
			g.poison = c.Weighted("poison", 2, 2, 1)
			g.otherKey = sc.keys[c.Pick("otherKey", len(sc.keys))]
			g.cancel = c.Bool("cancel")
		}

		sc.gets = append(sc.gets, g)
	}

	return sc
}

// key returns the k-th key of the scenario.
func (sc *scenario) key(k int) []byte {
	if sc.keys == nil {
		return scenKeys[k]
	}

	return sc.keys[k]
}

func (sc *scenario) describe(c *Case) {
	c.Tracef("config: %s", sc.cfg)

	for k := 0; k < sc.nkeys; k++ {
		c.Tracef("key %s initially %s (expired %v ago) failure-cached=%v", keyName(sc.key(k)), ksNames[sc.states[k]], sc.ages[k], sc.prefail[k])
		c.Class("init=" + ksNames[sc.states[k]])
	}

	c.Class("variant=" + variantNames[sc.cfg.variant])
}

func initToken(key []byte) string { return fmt.Sprintf("ini:%x@%x", key, key) }

// prepare brings the real backend into the drawn initial state (directly, not through the wrapper)
// and advances the fake clock so that every stale key expired exactly `age` ago.
func (w *world) prepare(sc *scenario) {
	maxAge := time.Duration(0)
	for _, a := range sc.ages {
		if a > maxAge {
			maxAge = a
		}
	}

	span := maxAge + time.Second
	target := w.be

	if sc.viaRestore {
		// the entries are written to another instance of the same kind and arrive through its dump
		target = newCaseBackend(w.c, variantKinds[sc.cfg.variant], cache.Config{
			TimeToLive: sc.cfg.backendTTL, ExpirationJitter: -1,
			DeleteExpiredJobInterval: farFuture, DeleteExpiredAfter: farFuture, ItemsCountReportInterval: farFuture,
		})

		if w.cfg.boxVals {
			target = boxBE{target}
		}

		w.c.Class("initial-state-via-restore")
	}

	for k := 0; k < sc.nkeys; k++ {
		key := sc.key(k)

		switch sc.states[k] {
		case ksFresh:
			_ = target.Write(ttlCtx(span+24*time.Hour), key, initToken(key))
			w.log.noteStored(string(key), initToken(key))

			if !sc.viaRestore {
				w.prepWrites++
			}
		case ksStaleRecent, ksStaleOld:
			_ = target.Write(ttlCtx(span-sc.ages[k]), key, initToken(key))
			w.log.noteStored(string(key), initToken(key))

			if !sc.viaRestore {
				w.prepWrites++
			}
		}
	}

	if sc.viaRestore {
		var buf bytes.Buffer

		_, derr := target.Dump(&buf)
		_, rerr := w.be.Restore(&buf)
		w.c.Assert(derr == nil && rerr == nil, "dump-restore-error", "preparing the backend through Dump/Restore = %v / %v", derr, rerr)
	}

	time.Sleep(span)
	w.attach()

	for k := 0; k < sc.nkeys; k++ {
		if sc.prefail[k] {
			e := &buildErr{key: string(sc.key(k)), task: "init", n: 0}
			w.fe.WriteFailure(bg, sc.key(k), e)
			w.prefailWrites++
			w.log.builds = append(w.log.builds, &buildRec{key: string(sc.key(k)), task: "init", getIdx: -1, err: e, enterStep: -1, exitStep: 0})
		}
	}
}
