#!/usr/bin/env python3
"""Driver for the bool64/cache property-based checks.

usage: verif.py setup | quick <Cxx> | thorough <Cxx> | replay <Cxx> <file> | list

Exit status: 0 = property held on everything explored (KNOWN-FINDING lines may be printed),
1 = violation (a line `VIOLATION property=<id> replay=<path>` is printed),
2 = inconclusive (build failure, time budget, watchdog) - never a verdict.
"""
import hashlib
import json
import os
import shutil
import subprocess
import sys
import time
from concurrent.futures import ThreadPoolExecutor

ROOT = os.path.dirname(os.path.abspath(__file__))
HARNESS = os.path.join(ROOT, "harness")
BUILD = os.path.join(ROOT, ".build")
EVIDENCE = os.environ.get("VERIF_EVIDENCE_DIR", os.path.join(ROOT, "evidence"))
REPLAYS = os.environ.get("VERIF_REPLAYS_DIR", os.path.join(ROOT, "replays"))
KNOWN = os.path.join(ROOT, "known_findings.json")
REPO = os.environ.get("VERIF_REPO_DIR", "/repo")
GO = "go1.26.8"
NCPU = os.cpu_count() or 4

sys.path.insert(0, ROOT)
from checks import CHECKS  # noqa: E402


def goenv():
    env = dict(os.environ)
    env.update({
        "GOFLAGS": "-mod=mod", "GOPROXY": "off", "GOSUMDB": "off", "GOTOOLCHAIN": "local",
        "CGO_ENABLED": env.get("CGO_ENABLED", "1"),
    })
    return env


def harness_dir():
    """The harness module; a scratch copy with a rewritten replace when VERIF_REPO_DIR is set."""
    if REPO == "/repo":
        return HARNESS, BUILD
    tag = hashlib.sha1(REPO.encode()).hexdigest()[:10]
    bdir = os.path.join(BUILD, "alt-" + tag)
    hdir = os.path.join(bdir, "harness")
    if os.path.exists(hdir):
        shutil.rmtree(hdir)
    shutil.copytree(HARNESS, hdir)
    subprocess.run([GO, "mod", "edit", "-replace", "github.com/bool64/cache=" + REPO], cwd=hdir,
                   env=goenv(), check=True)
    return hdir, bdir


def build(race=False):
    hdir, bdir = harness_dir()
    os.makedirs(bdir, exist_ok=True)
    out = os.path.join(bdir, "harness.race.test" if race else "harness.test")
    cmd = [GO, "test", "-c", "-tags", "verif", "-o", out]
    if race:
        cmd.append("-race")
    cmd.append(".")
    t0 = time.time()
    p = subprocess.run(cmd, cwd=hdir, env=goenv(), stdout=subprocess.PIPE, stderr=subprocess.STDOUT, text=True)
    if p.returncode != 0:
        print(p.stdout)
        print("BUILD-FAILED (%s): inconclusive" % ("race" if race else "plain"))
        sys.exit(2)
    # -mod=mod may touch go.sum of the harness only; /repo is never written.
    return out, time.time() - t0


def derive_seed(base, check, shard):
    h = hashlib.sha256(("%d/%s/%d" % (base, check, shard)).encode()).digest()
    return (int.from_bytes(h[:4], "big") & 0x7FFFFFFF) | 1


def run_proc(binary, job, seed, checks, tier, workdir, tag, timeout):
    os.makedirs(workdir, exist_ok=True)
    stats = os.path.join(workdir, "stats-%s.json" % tag)
    rdir = os.path.join(REPLAYS, job["prop"])
    os.makedirs(rdir, exist_ok=True)
    env = goenv()
    env.update({
        "VERIF_STATS_OUT": stats, "VERIF_REPLAY_DIR": rdir, "VERIF_REPLAY_SUFFIX": "-" + tag,
        "VERIF_KNOWN": KNOWN, "VERIF_TIER": tier, "VERIF_SEED_DERIVED": str(seed),
        "VERIF_WORKDIR": workdir, "VERIF_N": str(checks), "VERIF_BIN": binary,
    })
    env.pop("VERIF_REPLAY", None)
    for k, v in job.get("env", {}).items():
        env[k] = str(v)
    for k, v in job.get("env_tier", {}).get(tier, {}).items():
        env[k] = str(v)
    env["VERIF_SHARD"] = str(job.get("_shard", 0))
    env["VERIF_SHARDS"] = str(job.get("_shards", 1))
    if job.get("race"):
        env["GORACE"] = "halt_on_error=0 log_path=%s" % os.path.join(workdir, "race-" + tag)
    cmd = [binary, "-test.run", job.get("run", "^$"), "-test.timeout", "%ds" % timeout, "-test.count=1",
           "-rapid.checks=%d" % checks, "-rapid.seed=%d" % seed, "-rapid.nofailfile",
           "-rapid.shrinktime=%s" % job.get("shrinktime", "20s")]
    if job.get("fuzz"):
        cmd = [binary, "-test.run", "^$", "-test.fuzz", job["fuzz"], "-test.fuzztime", job["fuzztime"][tier],
               "-test.fuzzcachedir", os.path.join(workdir, "fuzzcache-" + tag), "-test.timeout", "%ds" % timeout]
    t0 = time.time()
    try:
        p = subprocess.run(cmd, cwd=workdir, env=env, stdout=subprocess.PIPE, stderr=subprocess.STDOUT,
                           text=True, timeout=timeout + 60, errors="replace")
        rc, out = p.returncode, p.stdout
    except subprocess.TimeoutExpired as e:
        rc, out = 124, (e.stdout or b"").decode(errors="replace") if isinstance(e.stdout, bytes) else (e.stdout or "")
    res = {"rc": rc, "out": out, "stats": stats, "tag": tag, "wall": time.time() - t0, "seed": seed,
           "job": job, "rdir": rdir, "checks": checks}
    return res


def merge_stats(results):
    merged = {}
    for r in results:
        try:
            with open(r["stats"]) as f:
                lst = json.load(f)
        except Exception:
            continue
        for st in lst:
            m = merged.setdefault(st["check"], {
                "check": st["check"], "rule": st["rule"], "evaluations": 0, "nontrivial": 0,
                "classes": {}, "known": {}, "samples": [], "hashes": set(), "exhaustive": False,
                "extra": {}, "failed": 0, "shards": 0})
            m["evaluations"] += st["evaluations"]
            m["nontrivial"] += st["nontrivial"]
            m["failed"] += st.get("failed", 0)
            m["shards"] += 1
            m["exhaustive"] = m["exhaustive"] or st.get("exhaustive", False)
            for k, v in (st.get("classes") or {}).items():
                m["classes"][k] = m["classes"].get(k, 0) + v
            for k, v in (st.get("known") or {}).items():
                m["known"][k] = m["known"].get(k, 0) + v
            for k, v in (st.get("extra") or {}).items():
                m["extra"][k] = m["extra"].get(k, 0) + v
            m["hashes"].update(st.get("hashes") or [])
            if len(m["samples"]) < 6:
                m["samples"].extend((st.get("samples") or [])[:max(1, 6 - len(m["samples"]))])
    return merged


def load_known():
    try:
        with open(KNOWN) as f:
            return json.load(f).get("findings", [])
    except Exception:
        return []


def run_property(prop, tier):
    spec = CHECKS[prop]
    base_seed = int(os.environ.get("VERIF_SEED", "1") or "1")
    t0 = time.time()
    need_race = any(j.get("race") for j in spec["jobs"])
    need_plain = any(not j.get("race") for j in spec["jobs"])
    bins = {}
    if need_plain:
        bins[False], _ = build(False)
    if need_race:
        bins[True], _ = build(True)
    workdir = os.path.join(BUILD, "run", "%s-%s-%d" % (prop, tier, os.getpid()))
    if os.path.exists(workdir):
        shutil.rmtree(workdir)
    os.makedirs(workdir)
    rdir = os.path.join(REPLAYS, prop)
    if os.path.isdir(rdir):
        shutil.rmtree(rdir)

    procs = []
    for job in spec["jobs"]:
        job = dict(job)
        job["prop"] = prop
        if tier not in job.get("tiers", ("quick", "thorough")):
            continue
        n = job.get("n", {"quick": 0, "thorough": 0})[tier]
        shards = job.get("shards", {"quick": 1, "thorough": NCPU})[tier]
        if job.get("fuzz"):
            shards = 1
        timeout = job.get("timeout", {"quick": 300, "thorough": 3000})[tier]
        for s in range(shards):
            name = job.get("name", (job.get("run") or job.get("fuzz")).strip("^$"))
            seed = derive_seed(base_seed, name, s)
            tag = "%s-s%d" % (name.replace("/", "_"), s)
            j2 = dict(job)
            j2["_shard"], j2["_shards"] = s, shards
            procs.append((bins[bool(job.get("race"))], j2, seed, n, tier, workdir, tag, timeout))

    with ThreadPoolExecutor(max_workers=NCPU) as ex:
        results = list(ex.map(lambda a: run_proc(*a), procs))

    merged = merge_stats(results)
    violations, inconclusive = [], []
    for r in results:
        if r["rc"] == 0:
            continue
        # a failing process: find its replay files
        found = []
        if os.path.isdir(r["rdir"]):
            for fn in sorted(os.listdir(r["rdir"])):
                if fn.endswith("-" + r["tag"] + ".json"):
                    found.append(os.path.join(r["rdir"], fn))
        if found:
            violations.extend(found)
        elif r["rc"] in (3, 124) or r["rc"] < 0 or "panic: test timed out" in r["out"] or "WATCHDOG" in r["out"] \
                or "cannot allocate memory" in r["out"] or "out of memory" in r["out"]:
            # time budget, watchdog, killed by a signal, out of memory: never a verdict
            inconclusive.append(r)
        elif "VERIF-VIOLATION-FILE " in r["out"]:
            for line in r["out"].splitlines():
                if "VERIF-VIOLATION-FILE " in line:
                    violations.append(line.split("VERIF-VIOLATION-FILE ", 1)[1].strip())
        else:
            # failing test without a replay file: crash of the test process (e.g. runtime fault);
            # keep its output as the replay artefact.
            path = os.path.join(r["rdir"], "crash-%s.log" % r["tag"])
            os.makedirs(r["rdir"], exist_ok=True)
            with open(path, "w") as f:
                f.write("seed=%d checks=%d run=%s\n" % (r["seed"], r["checks"], r["job"]["run"]))
                f.write(r["out"][-200000:])
            violations.append(path)

    # replay tier: saved inputs of earlier findings must pass on a tree where they are fixed
    regress_dir = os.path.join(ROOT, "regress")
    regress_run = 0
    regress_stale = 0
    if os.path.isdir(regress_dir):
        for fn in sorted(os.listdir(regress_dir)):
            if not (fn.startswith(prop + "-") and fn.endswith(".json")):
                continue
            path = os.path.join(regress_dir, fn)
            try:
                rf = json.load(open(path))
            except Exception:
                continue
            race = any(j.get("race") and rf.get("check", "") in j.get("run", "") for j in spec["jobs"])
            if race not in bins:
                continue
            env = goenv()
            env.update({"VERIF_REPLAY": path, "VERIF_KNOWN": KNOWN})
            p = subprocess.run([bins[race], "-test.run", "^Test%s$" % rf["check"], "-test.timeout", "120s"],
                               env=env, cwd=BUILD, stdout=subprocess.PIPE, stderr=subprocess.STDOUT, text=True)
            regress_run += 1
            if "REPLAY-VIOLATION" in p.stdout:
                print("[regress %s] violation reproduced" % fn)
                violations.append(path)
            elif "REPLAY-STALE" in p.stdout:
                regress_stale += 1
                print("[regress %s] recorded with an older generator (no longer the same case); regenerate with "
                      "SELFTEST_SAVE_REGRESS=1 verif.py selftest %s" % (fn, prop))
    wall = time.time() - t0
    known = load_known()
    known_hits = {}
    for m in merged.values():
        for sig, cnt in m["known"].items():
            known_hits[sig] = known_hits.get(sig, 0) + cnt

    import re as _re
    fuzz_execs = 0
    for r in results:
        if r["job"].get("fuzz"):
            m = _re.findall(r"execs: (\d+)", r["out"])
            if m:
                fuzz_execs += int(m[-1])
    evaluations = sum(m["evaluations"] for m in merged.values())
    distinct = sum(len(m["hashes"]) for m in merged.values())
    samples = []
    for m in merged.values():
        for s in m["samples"][:3]:
            samples.append({"check": m["check"], "classes": s.get("classes"), "trace": s.get("trace")})
    rules = "; ".join("%s: %s" % (m["check"], m["rule"]) for m in merged.values())
    checks_cov = []
    for m in merged.values():
        checks_cov.append({
            "check": m["check"], "evaluations": m["evaluations"], "nontrivial": m["nontrivial"],
            "distinct_nontrivial": len(m["hashes"]), "classes": dict(sorted(m["classes"].items())),
            "exhaustive": m["exhaustive"], "extra": m["extra"], "excluded_known": m["known"],
            "processes": m["shards"]})
    ev = {
        "property_id": prop, "tier": tier, "seed": base_seed, "level": spec["level"],
        "coverage": {
            "evaluations": evaluations, "distinct_nontrivial": distinct,
            "rule": rules + " (distinct_nontrivial = number of distinct choice sequences among non-trivial cases, "
                            "hash set unioned over processes, capped at 400000 per process and check)",
            "samples": samples[:12], "checks": checks_cov,
            "exhaustive": bool(merged) and all(m["exhaustive"] for m in merged.values()),
            "excluded_known": known_hits, "processes": len(results),
            "cases_per_sec": round(evaluations / wall, 1) if wall > 0 else 0,
            "native_fuzz_execs": fuzz_execs,
            "regression_replays_run": regress_run,
            "regression_replays_stale": regress_stale,
        },
        "assumptions": spec.get("assumptions", []),
        "wall_s": round(wall, 2), "violations": len(violations),
    }
    if inconclusive:
        ev["coverage"]["inconclusive_processes"] = [r["tag"] for r in inconclusive]
    os.makedirs(EVIDENCE, exist_ok=True)
    with open(os.path.join(EVIDENCE, prop + ".json"), "w") as f:
        json.dump(ev, f, indent=1, sort_keys=True)
        f.write("\n")

    for r in results:
        tail = [l for l in r["out"].splitlines() if l.strip()][-1:] if r["rc"] == 0 else r["out"].splitlines()[-40:]
        print("[%s] rc=%d wall=%.1fs seed=%d %s" % (r["tag"], r["rc"], r["wall"], r["seed"], " | ".join(tail[:1]) if r["rc"] == 0 else ""))
        if r["job"].get("fuzz") and r["rc"] == 0:
            fl = [l for l in r["out"].splitlines() if "execs:" in l]
            print("    " + (fl[-1] if fl else ""))
        if r["rc"] != 0:
            print("\n".join(tail))
    print("%s %s: evaluations=%d distinct_nontrivial=%d wall=%.1fs" % (prop, tier, evaluations, distinct, wall))
    for sig, cnt in sorted(known_hits.items()):
        what = next((k.get("what", "") for k in known if k.get("property") == prop and
                     k.get("status") == "known" and sigmatch(k.get("signature", ""), sig)), "")
        print("KNOWN-FINDING: property=%s %s [signature %s, hit %d times]" % (prop, what, sig, cnt))
    shutil.rmtree(workdir, ignore_errors=True)
    if violations:
        for v in violations:
            print("VIOLATION property=%s replay=%s" % (prop, v))
        return 1
    if inconclusive or evaluations == 0:
        print("INCONCLUSIVE property=%s (time budget / watchdog / nothing executed)" % prop)
        return 2
    return 0


def sigmatch(pattern, sig):
    if pattern.endswith("*"):
        return sig.startswith(pattern[:-1])
    return pattern == sig


def replay(prop, path):
    path = os.path.abspath(path)
    if path.endswith(".log"):
        print(open(path).read()[-5000:])
        print("crash logs are replayed by re-running the check with the recorded seed")
        return 1
    with open(path) as f:
        rf = json.load(f)
    spec = CHECKS[prop]
    race = any(j.get("race") and rf["check"] in j.get("checks", [j["run"]]) for j in spec["jobs"])
    binary, _ = build(race)
    env = goenv()
    env.update({"VERIF_REPLAY": path, "VERIF_KNOWN": KNOWN})
    p = subprocess.run([binary, "-test.run", "^Test%s$" % rf["check"], "-test.v", "-test.timeout", "300s"],
                       env=env, cwd=BUILD)
    return 1 if p.returncode != 0 else 0


def manifest():
    props = [json.loads(l) for l in open(os.path.join(ROOT, "properties.jsonl")) if l.strip()]
    from checks import NOT_APPLICABLE, HOOK_COMMITS
    checks = []
    for p in props:
        pid = p["id"]
        if pid not in CHECKS:
            continue
        spec = CHECKS[pid]
        c = {
            "property_id": pid,
            "quick_cmd": "python3 verif.py quick %s" % pid,
            "thorough_cmd": "python3 verif.py thorough %s" % pid,
            "evidence_file": "/verif/evidence/%s.json" % pid,
            "replay_cmd_template": "python3 verif.py replay %s {path}" % pid,
            "engine": "harness",
            "level_claimed": {"category": spec["level"], "text": spec["text"], "design_ref": spec["design_ref"]},
            "level_note": spec["note"],
            "technique": spec["technique"],
        }
        checks.append(c)
    na = []
    for p in props:
        if p["id"] not in CHECKS:
            na.append({"property_id": p["id"],
                       "reason": NOT_APPLICABLE.get(p["id"], "no check registered in this revision of /verif (not claimed)")})
    m = {
        "version": 1,
        "setup_cmd": "python3 verif.py setup",
        "hooks": {
            "guard": "verif (Go build tag)",
            "enable": "go1.26.8 test -c -tags verif in /verif/harness with replace github.com/bool64/cache => /repo",
            "baseline_off_cmd": "cd /repo && go test -vet=off -count=1 ./...",
            "source_commits": HOOK_COMMITS,
            "add_only": True,
        },
        "engines": [{
            "name": "harness", "path": "/verif/harness",
            "serves_properties": [c["property_id"] for c in checks],
            "kind_free_text": "Go test binary: pgregory.net/rapid v1.3.0 generators + shrinking, testing/synctest fake "
                              "clock and call-out scheduler, reference models, enumerated small scopes, native fuzzing; "
                              "driven by /verif/verif.py",
        }],
        "checks": checks,
        "not_applicable": na,
        "notes": "All checks rebuild /verif/harness against /repo's working tree with -tags verif on every invocation. "
                 "VERIF_SEED selects the rapid seeds (derived per check and process). Exit 2 = inconclusive. "
                 "Known findings: /verif/known_findings.json.",
    }
    with open(os.path.join(ROOT, "MANIFEST.json"), "w") as f:
        json.dump(m, f, indent=1)
        f.write("\n")
    print("MANIFEST.json: %d checks, %d not claimed" % (len(checks), len(na)))
    return 0


def selftest(prop, only=None):
    """Apply each mutant patch for prop to a scratch copy of /repo and expect the quick check to exit 1."""
    import glob
    import tempfile
    mdir = os.path.join(ROOT, "mutants")
    patches = sorted(glob.glob(os.path.join(mdir, prop + "-*.patch")))
    seeded = sorted(glob.glob(os.path.join(ROOT, "seeded", "*", "patch.diff")))
    for sp in seeded:
        try:
            meta = json.load(open(os.path.join(os.path.dirname(sp), "meta.json")))
        except Exception:
            meta = {}
        if prop in meta.get("detected_by", [meta.get("property")]):
            patches.append(sp)
    if only:
        patches = [p for p in patches if only in p]
    results = []
    for patch in patches:
        scratch = tempfile.mkdtemp(prefix="verif-mut-", dir="/tmp")
        try:
            repo = os.path.join(scratch, "repo")
            subprocess.run(["git", "-C", "/repo", "worktree", "add", "--detach", "-f", repo, "HEAD"],
                           check=True, stdout=subprocess.DEVNULL, stderr=subprocess.DEVNULL)
            # carry over uncommitted changes of /repo's working tree (normally none)
            ap = subprocess.run(["git", "-C", repo, "apply", "--whitespace=nowarn", patch], stdout=subprocess.PIPE,
                                stderr=subprocess.STDOUT, text=True)
            if ap.returncode != 0:
                results.append((patch, "PATCH-DOES-NOT-APPLY", ap.stdout.strip()[:200]))
                continue
            env = dict(os.environ)
            env.update({"VERIF_REPO_DIR": repo, "VERIF_EVIDENCE_DIR": os.path.join(scratch, "evidence"),
                        "VERIF_REPLAYS_DIR": os.path.join(scratch, "replays")})
            t0 = time.time()
            p = subprocess.run([sys.executable, os.path.join(ROOT, "verif.py"), os.environ.get("SELFTEST_TIER", "quick"), prop],
                               env=env, stdout=subprocess.PIPE, stderr=subprocess.STDOUT, text=True)
            viol = [l for l in p.stdout.splitlines() if l.startswith("VIOLATION")]
            sig = ""
            for v in viol[:1]:
                rp = v.split("replay=", 1)[1]
                try:
                    sig = json.load(open(rp)).get("sig", "")
                except Exception:
                    sig = "crash-log"
            if os.environ.get("SELFTEST_SAVE_REGRESS") and viol and "revert" in os.path.basename(patch):
                rp = viol[0].split("replay=", 1)[1]
                if rp.endswith(".json") and os.path.exists(rp):
                    os.makedirs(os.path.join(ROOT, "regress"), exist_ok=True)
                    shutil.copy(rp, os.path.join(ROOT, "regress", "%s-%s.json" % (
                        prop, os.path.basename(patch).replace(".patch", "").replace(prop + "-", ""))))
            verdict = {1: "CAUGHT", 0: "MISSED", 2: "INCONCLUSIVE"}.get(p.returncode, "rc=%d" % p.returncode)
            results.append((patch, verdict, "%.0fs %s" % (time.time() - t0, sig)))
            if p.returncode not in (0, 1):
                print(p.stdout[-3000:])
        finally:
            subprocess.run(["git", "-C", "/repo", "worktree", "remove", "--force", os.path.join(scratch, "repo")],
                           stdout=subprocess.DEVNULL, stderr=subprocess.DEVNULL)
            shutil.rmtree(scratch, ignore_errors=True)
            tag = hashlib.sha1(os.path.join(scratch, "repo").encode()).hexdigest()[:10]
            shutil.rmtree(os.path.join(BUILD, "alt-" + tag), ignore_errors=True)
    ok = True
    for patch, verdict, info in results:
        print("SELFTEST %s %-60s %s %s" % (prop, os.path.relpath(patch, ROOT), verdict, info))
        ok = ok and verdict == "CAUGHT"
    return 0 if ok else 1


def main():
    if len(sys.argv) < 2:
        print(__doc__)
        return 2
    cmd = sys.argv[1]
    if cmd == "setup":
        _, t1 = build(False)
        _, t2 = build(True)
        print("setup ok: plain %.1fs race %.1fs" % (t1, t2))
        return 0
    if cmd == "list":
        for k, v in CHECKS.items():
            print(k, v["level"], [j["run"] for j in v["jobs"]])
        return 0
    if cmd in ("quick", "thorough"):
        return run_property(sys.argv[2], cmd)
    if cmd == "selftest":
        return selftest(sys.argv[2], sys.argv[3] if len(sys.argv) > 3 else None)
    if cmd == "manifest":
        return manifest()
    if cmd == "replay":
        return replay(sys.argv[2], sys.argv[3])
    print(__doc__)
    return 2


if __name__ == "__main__":
    sys.exit(main())
