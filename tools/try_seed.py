#!/usr/bin/env python3
"""Run quick (or thorough) checks against one archived seeded change: try_seed.py C07-G [C07,C10] [tier]."""
import hashlib
import json
import os
import shutil
import subprocess
import sys
import tempfile

ROOT = os.path.dirname(os.path.dirname(os.path.abspath(__file__)))


def main():
    sid = sys.argv[1]
    props = sys.argv[2].split(",") if len(sys.argv) > 2 else [sid.split("-")[0]]
    tier = sys.argv[3] if len(sys.argv) > 3 else "quick"
    patch = os.path.join(ROOT, "seeded", sid, "patch.diff")
    if not os.path.exists(patch):
        patch = os.path.abspath(sid)
    scratch = tempfile.mkdtemp(prefix="verif-try-", dir="/tmp")
    wt = os.path.join(scratch, "repo")
    try:
        subprocess.run(["git", "-C", "/repo", "worktree", "add", "--detach", "-f", wt, "HEAD"], capture_output=True)
        p = subprocess.run(["git", "apply", "--whitespace=nowarn", patch], cwd=wt, capture_output=True, text=True)
        if p.returncode != 0:
            print("does not apply:", p.stderr[-300:])
            return 1
        for pr in props:
            e = dict(os.environ)
            e.update({"VERIF_REPO_DIR": wt, "VERIF_EVIDENCE_DIR": os.path.join(scratch, "evidence"),
                      "VERIF_REPLAYS_DIR": os.path.join(scratch, "replays")})
            p = subprocess.run([sys.executable, os.path.join(ROOT, "verif.py"), tier, pr], env=e, capture_output=True,
                               text=True, errors="replace")
            verdict = {0: "MISSED", 1: "CAUGHT", 2: "INCONCLUSIVE"}.get(p.returncode, "rc=%d" % p.returncode)
            sig = ""
            for line in p.stdout.splitlines():
                if line.startswith("VIOLATION"):
                    rp = line.split("replay=", 1)[1]
                    try:
                        j = json.load(open(rp))
                        sig = "%s [%s] %s" % (j.get("check"), j.get("sig"), j.get("message", "")[:200])
                    except Exception:
                        sig = "crash-log: " + open(rp, errors="replace").read()[-400:].replace("\n", " | ")
                    break
            print(sid, pr, verdict, sig, flush=True)
            if p.returncode == 2:
                print(p.stdout[-600:])
    finally:
        subprocess.run(["git", "-C", "/repo", "worktree", "remove", "--force", wt], capture_output=True)
        shutil.rmtree(scratch, ignore_errors=True)
        tag = hashlib.sha1(wt.encode()).hexdigest()[:10]
        shutil.rmtree(os.path.join(ROOT, ".build", "alt-" + tag), ignore_errors=True)
    return 0


if __name__ == "__main__":
    sys.exit(main())
