#!/usr/bin/env python3
"""Confirm a seeded change delivered by a sub-agent and run our checks against it.

usage: check_seed.py <prop> <A|B> [--props C01,C02] [--tier quick]

Steps (all in a scratch worktree of /repo's HEAD under /tmp, removed afterwards):
 1. patch applies, package builds
 2. existing root-package suite passes with the patch (2 runs)
 3. demo test passes on the clean tree and fails with the patch
 4. `verif.py <tier> <prop>` against the patched tree (VERIF_REPO_DIR) -> CAUGHT / MISSED
Prints one JSON object.
"""
import json
import os
import re
import shutil
import subprocess
import sys
import tempfile

ROOT = os.path.dirname(os.path.dirname(os.path.abspath(__file__)))


def sh(cmd, cwd=None, env=None, timeout=1800):
    p = subprocess.run(cmd, cwd=cwd, env=env, stdout=subprocess.PIPE, stderr=subprocess.STDOUT, text=True,
                       errors="replace", timeout=timeout, shell=isinstance(cmd, str))
    return p.returncode, p.stdout


def main():
    prop, which = sys.argv[1], sys.argv[2]
    props = [prop]
    tier = "quick"
    src = "/tmp/seed/out/%s" % prop
    args = sys.argv[3:]
    while args:
        a = args.pop(0)
        if a == "--props":
            props = args.pop(0).split(",")
        elif a == "--tier":
            tier = args.pop(0)
        elif a == "--src":
            src = args.pop(0)
    patch = os.path.join(src, "patch%s.diff" % which)
    demo = os.path.join(src, "demo%s_test.go" % which)
    if not os.path.exists(patch):
        patch = os.path.join(src, "patch.diff")
        demo = [f for f in os.listdir(src) if f.endswith("_test.go")]
        demo = os.path.join(src, demo[0]) if demo else ""
    res = {"property": prop, "seed": which, "patch": patch}
    env = dict(os.environ, GOFLAGS="-mod=mod", GOPROXY="off", GOSUMDB="off")
    scratch = tempfile.mkdtemp(prefix="verif-seed-", dir="/tmp")
    wt = os.path.join(scratch, "repo")
    try:
        sh(["git", "-C", "/repo", "worktree", "add", "--detach", "-f", wt, "HEAD"])
        race = prop == "C16"
        demo_src = open(demo).read()
        m = re.findall(r"func (Test\w+)\(", demo_src)
        res["demo_tests"] = m
        runre = "^(%s)$" % "|".join(m)
        demo_dst = os.path.join(wt, "zz_seed_demo_test.go")
        test_cmd = ["go", "test", "-vet=off", "-count=1", "-run", runre, "."]
        if race:
            test_cmd.insert(2, "-race")
        # demo on the clean tree
        shutil.copy(demo, demo_dst)
        rc, out = sh(test_cmd, cwd=wt, env=env)
        res["demo_clean_pass"] = rc == 0
        if rc != 0:
            res["demo_clean_out"] = out[-1500:]
        os.remove(demo_dst)
        # apply
        rc, out = sh(["git", "apply", "--whitespace=nowarn", patch], cwd=wt)
        res["applies"] = rc == 0
        if rc != 0:
            res["apply_out"] = out[-500:]
            print(json.dumps(res, indent=1))
            return 1
        rc, out = sh(["go", "build", "./..."], cwd=wt, env=env)
        res["builds"] = rc == 0
        rc2, out2 = sh(["go", "vet", "-tags", "verif", "."], cwd=wt, env=env)
        res["builds_with_tag"] = rc2 == 0
        # the existing suite has timing-based tests that flake on a loaded machine (also on the
        # clean tree): up to 4 runs of the root package, accepted when 2 runs pass
        passes, runs = 0, 0
        failed_tests = set()
        while runs < 4 and passes < 2:
            runs += 1
            rc, out = sh(["go", "test", "-vet=off", "-count=1", "."], cwd=wt, env=env)
            if rc == 0:
                passes += 1
            else:
                failed_tests.update(re.findall(r"--- FAIL: (\S+)", out))
        res["suite_runs"] = runs
        res["suite_passes"] = passes
        res["suite_failed_tests"] = sorted(failed_tests)
        res["suite_passes_with_patch"] = passes >= 2
        shutil.copy(demo, demo_dst)
        fails = 0
        for _ in range(3):
            rc, out = sh(test_cmd, cwd=wt, env=env)
            if rc != 0:
                fails += 1
        res["demo_patched_fail_runs_of_3"] = fails
        os.remove(demo_dst)
        # our checks
        res["checks"] = {}
        for p in props:
            e = dict(os.environ)
            e.update({"VERIF_REPO_DIR": wt, "VERIF_EVIDENCE_DIR": os.path.join(scratch, "evidence"),
                      "VERIF_REPLAYS_DIR": os.path.join(scratch, "replays")})
            rc, out = sh([sys.executable, os.path.join(ROOT, "verif.py"), tier, p], env=e, timeout=7200)
            verdict = {0: "MISSED", 1: "CAUGHT", 2: "INCONCLUSIVE"}.get(rc, "rc=%d" % rc)
            sig = ""
            for line in out.splitlines():
                if line.startswith("VIOLATION"):
                    rp = line.split("replay=", 1)[1]
                    try:
                        j = json.load(open(rp))
                        sig = "%s [%s] %s" % (j.get("check"), j.get("sig"), j.get("message", "")[:160])
                    except Exception:
                        sig = "crash-log"
                    break
            res["checks"][p] = {"verdict": verdict, "first": sig}
    finally:
        sh(["git", "-C", "/repo", "worktree", "remove", "--force", wt])
        shutil.rmtree(scratch, ignore_errors=True)
        import hashlib
        tag = hashlib.sha1(wt.encode()).hexdigest()[:10]
        shutil.rmtree(os.path.join(ROOT, ".build", "alt-" + tag), ignore_errors=True)
    print(json.dumps(res, indent=1))
    return 0


if __name__ == "__main__":
    sys.exit(main())
