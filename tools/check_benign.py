#!/usr/bin/env python3
"""Run every quick check against a property-PRESERVING change and report alarms (false alarms).

usage: check_benign.py <dir with patchX.diff> <A|B> [--props C01,C02,...]
"""
import hashlib
import json
import os
import re
import shutil
import subprocess
import sys
import tempfile

ROOT = os.path.dirname(os.path.dirname(os.path.abspath(__file__)))
ALL = ["C%02d" % i for i in range(1, 19)]


def sh(cmd, cwd=None, env=None, timeout=3600):
    p = subprocess.run(cmd, cwd=cwd, env=env, stdout=subprocess.PIPE, stderr=subprocess.STDOUT, text=True,
                       errors="replace", timeout=timeout)
    return p.returncode, p.stdout


def main():
    src, which = sys.argv[1], sys.argv[2]
    props = ALL
    if "--props" in sys.argv:
        props = sys.argv[sys.argv.index("--props") + 1].split(",")
    patch = os.path.join(src, "patch%s.diff" % which)
    res = {"patch": patch}
    env = dict(os.environ, GOFLAGS="-mod=mod", GOPROXY="off", GOSUMDB="off")
    scratch = tempfile.mkdtemp(prefix="verif-benign-", dir="/tmp")
    wt = os.path.join(scratch, "repo")
    try:
        sh(["git", "-C", "/repo", "worktree", "add", "--detach", "-f", wt, "HEAD"])
        rc, out = sh(["git", "apply", "--whitespace=nowarn", patch], cwd=wt)
        res["applies"] = rc == 0
        if rc != 0:
            res["apply_out"] = out[-400:]
            print(json.dumps(res, indent=1))
            return 1
        rc, out = sh(["go", "vet", "-tags", "verif", "."], cwd=wt, env=env)
        res["builds_with_tag"] = rc == 0
        if rc != 0:
            res["vet_out"] = out[-800:]
        passes, runs, failed = 0, 0, set()
        while runs < 4 and passes < 2:
            runs += 1
            rc, out = sh(["go", "test", "-vet=off", "-count=1", "."], cwd=wt, env=env)
            if rc == 0:
                passes += 1
            else:
                failed.update(re.findall(r"--- FAIL: (\S+)", out))
        res["suite_passes"] = passes >= 2
        res["suite_failed_tests"] = sorted(failed)
        res["alarms"] = {}
        for p in props:
            e = dict(os.environ)
            e.update({"VERIF_REPO_DIR": wt, "VERIF_EVIDENCE_DIR": os.path.join(scratch, "evidence"),
                      "VERIF_REPLAYS_DIR": os.path.join(scratch, "replays")})
            rc, out = sh([sys.executable, os.path.join(ROOT, "verif.py"), "quick", p], env=e, timeout=7200)
            if rc == 0:
                continue
            info = {"rc": rc}
            for line in out.splitlines():
                if line.startswith("VIOLATION"):
                    rp = line.split("replay=", 1)[1]
                    try:
                        j = json.load(open(rp))
                        info["first"] = "%s [%s] %s" % (j.get("check"), j.get("sig"), j.get("message", "")[:300])
                        info["trace_tail"] = j.get("trace", [])[-12:]
                    except Exception:
                        info["first"] = "crash-log: " + open(rp, errors="replace").read()[-600:]
                    break
            if rc == 2:
                info["out_tail"] = out[-800:]
            res["alarms"][p] = info
    finally:
        sh(["git", "-C", "/repo", "worktree", "remove", "--force", wt])
        shutil.rmtree(scratch, ignore_errors=True)
        tag = hashlib.sha1(wt.encode()).hexdigest()[:10]
        shutil.rmtree(os.path.join(ROOT, ".build", "alt-" + tag), ignore_errors=True)
    print(json.dumps(res, indent=1))
    return 0


if __name__ == "__main__":
    sys.exit(main())
