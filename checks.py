"""Table of checks: property -> jobs run by verif.py, plus the MANIFEST texts."""

# n = cases per process; shards = processes (distinct derived seeds) per tier.
CHECKS = {
    "C07": {
        "level": "exploration",
        "technique": "model-based stateful property testing (rapid) against a reference map on a fake clock",
        "design_ref": "DESIGN.md section 6 C07",
        "text": "Generated operation histories (all public backend operations, all TTL modes, SkipRead, clock jumps "
                "to exactly / just past expiry instants) are applied to each of the three backends inside a "
                "synctest bubble and to an independent reference map; every single result is compared. Sampled "
                "search with measured class coverage, not a proof.",
        "note": "Trusts the Go runtime's synctest fake clock and the reference model (harness/model.go, which "
                "imports nothing from the library). Sequential histories only; concurrency is C08.",
        "assumptions": ["fake clock of testing/synctest is faithful to time.Now/Sleep semantics",
                        "janitor never fires (interval 10^6 h)"],
        "jobs": [
            {"run": "^TestC07BackendModel$", "n": {"quick": 20000, "thorough": 150000}},
        ],
    },
}

HOOK_COMMITS = ["a54259f"]

# property -> reason, for properties not claimed
NOT_APPLICABLE = {}
