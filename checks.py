"""Table of checks: property -> jobs run by verif.py, plus the MANIFEST texts."""

# n = cases per process; shards = processes (distinct derived seeds) per tier.
CHECKS = {
    "C01": {
        "level": "exploration",
        "technique": "generated-schedule property testing: call-out scheduler inside a synctest bubble, in-flight build monitor; small-scope exhaustive schedule enumeration; free-running stress twin",
        "design_ref": "DESIGN.md section 6 C01",
        "text": "Interleavings of concurrent Gets are a generated, shrinkable value: every call-out of the frontend (backend "
                "Read/Write, builder, Failover log and stats call-outs) parks the calling goroutine and a controller driven by "
                "rapid decides who runs next, when each Get starts, when the fake clock jumps and when the backend is expired "
                "or a key deleted externally. The builder keeps a per-key in-flight counter. Sampled search over schedules and "
                "configurations; exhaustive only in the small scope of the sweep.",
        "note": "Critical sections of Failover.lock and of the real backends are atomic for the scheduler; interleavings inside "
                "them are sampled only by the free-running stress twin. Trusts testing/synctest quiescence detection.",
        "assumptions": ["interleaving granularity = frontend call-outs", "goroutines the library spawns are identified by goroutine id + task id in the context"],
        "jobs": [
            {"run": "^TestC01SingleBuild$", "n": {"quick": 10000, "thorough": 60000}},
            # bursts over up to 520 distinct keys locked at the same time, drained to 1-3 builds in flight
            {"run": "^TestC01ManyKeys$", "n": {"quick": 400, "thorough": 4000}},
            {"run": "^TestC02Layered$", "name": "C02Layered-for-C01", "n": {"quick": 2000, "thorough": 20000}},
            {"run": "^TestC01Sweep$", "n": {"quick": 1, "thorough": 1}, "env_tier": {"quick": {"VERIF_SWEEP_LIMIT": 30}, "thorough": {}},
             "shards": {"quick": 1, "thorough": 16}},
            {"run": "^TestC01Stress$", "race": True, "n": {"quick": 150, "thorough": 400}, "shards": {"quick": 1, "thorough": 8}},
        ],
    },
    "C02": {
        "level": "fault_enumeration",
        "technique": "generated-schedule property testing with injected backend faults; provenance oracle over unique tokens and unique error objects; single-fault position enumeration",
        "design_ref": "DESIGN.md section 6 C02",
        "text": "Every value handed out by a harness builder is a unique token naming its key and producer, every failure a "
                "unique error object; backend Read/Write calls can be replaced by unique injected errors at any point of the "
                "generated schedule. Each Get result is checked for provenance (own key, finished build or stored value, or an "
                "error produced for that key). In thorough mode every backend call index of sampled fault-free base schedules "
                "is additionally enumerated as the single fault position. Further checks: waiters of a panicking builder, and layered caches (the builder of an outer Get reads the same key through another Failover instance; per-instance provenance).",
        "note": "Schedules are sampled (call-out granularity). Generic value type is string (zero value detectable).",
        "assumptions": ["interleaving granularity = frontend call-outs"],
        "jobs": [
            {"run": "^TestC02Provenance$", "n": {"quick": 8000, "thorough": 40000}},
            {"run": "^TestC02FaultEnum$", "n": {"quick": 1500, "thorough": 12000}},
            # a builder may also panic (its caller recovers): Gets waiting for that build get an error or build themselves
            {"run": "^TestC02PanickingBuilder$", "n": {"quick": 2000, "thorough": 20000}},
            # layered caches: the builder of an outer Get reads the same key through another Failover instance
            {"run": "^TestC02Layered$", "n": {"quick": 4000, "thorough": 40000}},
            # values torn or mixed up inside the backends' critical sections are out of the scheduler's reach:
            # the free-running twin (race detector + provenance of every result) covers them
            {"run": "^TestC01Stress$", "name": "C01Stress-for-C02", "race": True, "n": {"quick": 100, "thorough": 300}, "shards": {"quick": 1, "thorough": 8}},
        ],
    },
    "C03": {
        "level": "exploration",
        "technique": "complete enumeration of the finite decision table (504 consistent cells) with property-based parameter generation inside each cell; explicit decision-function oracle",
        "design_ref": "DESIGN.md section 6 C03",
        "text": "The table entry-state x failure-cache x SyncUpdate x FailHard x MaxStaleness x FailedUpdateTTL x builder x "
                "variant is enumerated completely (the run fails as a harness error if a cell is not visited); inside each "
                "cell rapid draws the concrete parameters (ages on both sides of MaxStaleness including +/-1ns, TTLs, key, "
                "SyncRead). The oracle is an independent decision function derived from the statement and README: result "
                "(a set where the docs under-determine it), builder invocation count, whether Get returned before the "
                "build ended (parking builder + synctest.Wait), backend value+expiry and failure cache at quiescence.",
        "note": "Table exhaustive, parameters sampled. Where README bullets 5 and 7 both apply (stale value + cached failure) "
                "the oracle accepts either documented outcome.",
        "assumptions": ["fake clock; backend jitter disabled so expiries are exact"],
        "jobs": [
            {"run": "^TestC03DecisionTable$", "n": {"quick": 12, "thorough": 150}},
        ],
    },
    "C04": {
        "level": "exploration",
        "technique": "generated-schedule property testing with faults and post-return caller actions; deterministic quiescence detection in a synctest bubble; key-lock accessor plus black-box follow-up Get",
        "design_ref": "DESIGN.md section 6 C04",
        "text": "Liveness is turned into a safety check at scheduler quiescence: when nothing is parked every builder has "
                "returned, so a Get that has not returned can never return. Then no key lock may remain (accessor) and, "
                "black-box, every key must be buildable again after Delete + clearing the failure cache. Caller behaviours "
                "after return (buffer overwrite with another live key, context cancel) are scheduled steps.",
        "note": "A livelock that never reaches a call-out would trip the watchdog (exit 2), not produce a verdict.",
        "assumptions": ["interleaving granularity = frontend call-outs"],
        "jobs": [
            {"run": "^TestC04Completion$", "n": {"quick": 8000, "thorough": 40000}},
            # hundreds of builds in flight at once (sync and background): Gets served stale return at once, no lock remains
            {"run": "^TestC01ManyKeys$", "name": "C01ManyKeys-for-C04", "n": {"quick": 300, "thorough": 3000}},
            # a background builder that ends its goroutine (runtime.Goexit) instead of returning
            {"run": "^TestC04GoexitBuilder$", "n": {"quick": 500, "thorough": 5000}},
            {"run": "^TestC02Layered$", "name": "C02Layered-for-C04", "n": {"quick": 2000, "thorough": 20000}},
            # a Get ends in backend calls: after an aborted Walk / Dump / export every backend operation still completes
            # (real time, outside a bubble: a lock left behind blocks on a mutex, which a bubble cannot tell from slowness)
            {"run": "^TestC07AbortedWalk$", "name": "C07AbortedWalk-for-C04", "n": {"quick": 1500, "thorough": 15000}},
        ],
    },
    "C05": {
        "level": "exploration",
        "technique": "generated-schedule property testing of build counts (bursts) and model-stepped timelines on a fake clock (suppression window)",
        "design_ref": "DESIGN.md section 6 C05",
        "text": "(1) Bursts of 2-8 Gets on one missing/expired key with SyncRead on, arriving at generated points of a generated "
                "call-out schedule; the builder must be invoked exactly once per case (success) or exactly once with every later "
                "Get served from the failure cache or stale value (failure). (2) Sequential timelines of Gets at generated fake "
                "instants constructed outside the failure cache's jitter band: no build and the same error object inside "
                "[t_fail, t_fail+0.95F), exactly one build after t_fail+1.05F or with FailedUpdateTTL=-1. Sampled search. (3) Dozens of keys failing together on frontends whose BackendConfig carries eviction settings: no rebuild inside the suppression window whatever cleanup cycles run.",
        "note": "Conditions that would legitimately allow a second build (result not fresh any more, external ops, SkipRead, "
                "negative TTL) are excluded by construction and counted as classes. Freshness in (2) is observed by a direct "
                "backend read, not modelled.",
        "assumptions": ["interleaving granularity = frontend call-outs", "failure cache jitter is the documented default 0.1"],
        "jobs": [
            {"run": "^TestC05Burst$", "n": {"quick": 6000, "thorough": 40000}},
            {"run": "^TestC05Suppression$", "n": {"quick": 6000, "thorough": 40000}},
            # dozens of keys failing together on frontends whose BackendConfig carries eviction settings
            {"run": "^TestC05ManyFailures$", "n": {"quick": 1500, "thorough": 20000}},
            # long histories (tens of thousands of lock releases) while builds are in flight
            {"run": "^TestC01ManyKeys$", "name": "C01ManyKeys-for-C05", "n": {"quick": 300, "thorough": 3000}},
            {"run": "^TestC01Sweep$", "name": "C01Sweep-for-C05", "n": {"quick": 1, "thorough": 1}, "tiers": ("thorough",),
             "shards": {"quick": 1, "thorough": 16}},
        ],
    },
    "C06": {
        "level": "exploration",
        "technique": "property-based testing of the WithTTL fold model (pure) and generated-schedule testing of TTL/context propagation observed in a backend wrapper and inside the builder",
        "design_ref": "DESIGN.md section 6 C06",
        "text": "(1) Trees of contexts derived by WithTTL in both modes are compared with a cell model after every step. "
                "(2) Under generated schedules the backend wrapper records TTL(ctx) of every store and the builder records "
                "Done/Err/Deadline/values of its context: final store TTL = fold of builder updates over the caller's cell, "
                "refresh store TTL = UpdateTTL, caller context TTL unchanged by the refresh, stored expiry = write instant + TTL, "
                "background build context detached yet carrying the caller's values even for cancelled callers. "
                "(3) Lone SkipRead Gets must rebuild exactly once and store the result. Sampled search. (4) Frontends on their own default backend observed black-box on a fake clock (UpdateTTL of the stale re-store, TTL of the final store); layered caches and a custom Trait-based backend.",
        "note": "SkipRead Gets that overlap another Get's update of the same key are only required to satisfy C02; the rebuild "
                "rule is asserted for non-overlapping and lone Gets.",
        "assumptions": ["interleaving granularity = frontend call-outs", "backend jitter disabled so stored expiry is exact"],
        "jobs": [
            {"run": "^TestC06WithTTL$", "n": {"quick": 20000, "thorough": 150000}},
            {"run": "^TestC06Failover$", "n": {"quick": 8000, "thorough": 40000}},
            {"run": "^TestC06SkipReadLone$", "n": {"quick": 3000, "thorough": 20000}},
            # frontends on their own default backend (BackendConfig), observed black-box on a fake clock
            {"run": "^TestC06OwnBackend$", "n": {"quick": 600, "thorough": 3000}},
            # hundreds of background builds whose callers are cancelled after their Get returned
            {"run": "^TestC01ManyKeys$", "name": "C01ManyKeys-for-C06", "n": {"quick": 300, "thorough": 3000}},
            # layered caches: nested Gets on another instance under contexts derived from the builder context
            {"run": "^TestC02Layered$", "name": "C02Layered-for-C06", "n": {"quick": 3000, "thorough": 40000}},
            # a custom backend built on the exported Trait helpers under a Failover: default TTL of built values
            {"run": "^TestC18TraitBackend$", "name": "C18TraitBackend-for-C06", "n": {"quick": 3000, "thorough": 40000}},
        ],
    },
    "C07": {
        "level": "exploration",
        "technique": "model-based stateful property testing (rapid) against a reference map on a fake clock",
        "design_ref": "DESIGN.md section 6 C07",
        "text": "Generated operation histories (all public backend operations, all TTL modes, SkipRead, clock jumps "
                "to exactly / just past expiry instants) are applied to each of the three backends inside a "
                "synctest bubble and to an independent reference map; every single result is compared. Sampled "
                "search with measured class coverage, not a proof.",
        "note": "Trusts the Go runtime's synctest fake clock and the reference model (harness/model.go, which "
                "imports nothing from the library). Sequential histories only; concurrency is C08.",
        "assumptions": ["fake clock of testing/synctest is faithful to time.Now/Sleep semantics",
                        "janitor never fires (interval 10^6 h)"],
        "jobs": [
            {"run": "^TestC07BackendModel$", "n": {"quick": 20000, "thorough": 150000}},
            {"run": "^TestC07AbortedWalk$", "n": {"quick": 4000, "thorough": 40000}},
            # entries do not depend on the exported wrapper staying reachable (finalizer / garbage collector)
            {"run": "^TestC07WrapperCollected$", "n": {"quick": 60, "thorough": 600}},
            {"fuzz": "^FuzzC07BackendModel$", "fuzztime": {"thorough": "60s"}, "tiers": ("thorough",), "timeout": {"quick": 300, "thorough": 600}},
        ],
    },
    "C08": {
        "level": "exploration",
        "technique": "generated concurrent client programs run free (clock frozen per phase in a synctest bubble); histories checked with porcupine against a nondeterministic per-key model, plus Walk exact-once invariants",
        "design_ref": "DESIGN.md section 6 C08",
        "text": "Programs of 2-8 goroutines x 2-8 operations per phase over 2-5 slots (one slot is a constructed hash-colliding "
                "key pair on hash-indexed backends) are generated; every operation records call/return stamps from one atomic "
                "counter. The per-slot histories must be linearizable w.r.t. a model in which batch operations act on each key "
                "at one instant within their call, cleanup/eviction may or may not remove an entry and every Walk callback is an "
                "observation. Walk must not visit a key twice, report only stored values, and visit / omit keys whose state is "
                "determined. Verdicts cover the histories that actually executed.",
        "note": "The Go scheduler picks the interleavings (16 cores, spin hints); the measured class 'overlapping-mutation' "
                "says how many histories had real overlap. At E == now (frozen clock) both fresh and expired are accepted; the "
                "strict boundary is C07/C10's.",
        "assumptions": ["porcupine v1.3.0 linearizability checker", "clock frozen within a phase"],
        "jobs": [
            {"run": "^TestC08Linearizable$", "n": {"quick": 20000, "thorough": 80000}},
            # walking through the non-generic transfer adapters alongside writers (real time)
            {"run": "^TestC08AdapterWalk$", "n": {"quick": 12, "thorough": 120}, "shrinktime": "5s"},
        ],
    },
    "C09": {
        "level": "exploration",
        "technique": "model-based stateful property testing over algebraically constructed xxhash64 collisions; poison-after-use key buffers",
        "design_ref": "DESIGN.md section 6 C09",
        "text": "Key families with identical 64-bit xxhash are constructed from the hash algebra (unreachable by sampling) and "
                "driven through generated operation histories against a reference map relaxed exactly as the statement allows "
                "(a miss is permitted, a leak never). Every key passed to the library in any check is a scratch copy that is "
                "overwritten after the call. Sampled search.",
        "note": "Trusts the collision construction (asserted with xxhash.Sum64 on every family) and the reference model.",
        "assumptions": ["collision families are asserted against github.com/cespare/xxhash/v2 before use"],
        "jobs": [
            {"run": "^TestC09Collisions$", "n": {"quick": 10000, "thorough": 100000}},
            {"run": "^TestC09BufferReuse$", "n": {"quick": 5000, "thorough": 40000}},
            {"run": "^TestC09FailoverCollision$", "n": {"quick": 5000, "thorough": 40000}},
            # concurrent operations on a colliding pair (one linearizability slot with two keys)
            # a label carrying thousands of keys, one of them displaced by a colliding unlabelled key
            {"run": "^TestC15ManyKeys$", "name": "C15ManyKeys-for-C09", "n": {"quick": 300, "thorough": 3000}},
            {"run": "^TestC08Linearizable$", "name": "C08Linearizable-for-C09", "n": {"quick": 14000, "thorough": 60000}},
        ],
    },
    "C10": {
        "level": "exploration",
        "technique": "property-based testing of expiry instants on a fake clock against the closed-form TTL/jitter band",
        "design_ref": "DESIGN.md section 6 C10",
        "text": "TTL magnitudes from 1ns to ~146 years (log-uniform, both signs), all jitter settings and all three backends are "
                "generated; the expiry reported by Walk is compared with t+T exactly (jitter off) or the band "
                "[t+T(1-J/2), t+T(1+J/2)]; the fake clock is then moved to exactly E and E+1ns to check the fresh/expired "
                "boundary and ExpiredAt == Walk's instant. Sampled search. Also: up to 140000 jittered writes into one long-lived instance with every expiry checked against the band, and the linearizability runner for writes racing batch operations.",
        "note": "Trusts testing/synctest's fake clock; float slop of |T|*2^-50+2ns is allowed on band edges; instants are kept "
                "below year 2255 (int64 unix-nanosecond range).",
        "assumptions": ["band edges allow |T|*2^-50 + 2ns of float64 rounding"],
        "jobs": [
            {"run": "^TestC10ExpiryBounds$", "n": {"quick": 30000, "thorough": 200000}},
            # tens of thousands of jittered writes into one long-lived instance, every expiry inside the band
            {"run": "^TestC10LongLived$", "n": {"quick": 60, "thorough": 600}},
            # entries stored through the Failover frontend: the TTL of the final store and the stored expiry
            {"run": "^TestC06Failover$", "name": "C06Failover-for-C10", "n": {"quick": 5000, "thorough": 30000}},
            # a value built through Failover stays fresh for the TTL it was built with (stable values, ObserveMutability)
            {"run": "^TestC05Suppression$", "name": "C05Suppression-for-C10", "n": {"quick": 3000, "thorough": 20000}},
            # expiry of entries whose write raced a batch operation (DeleteAll, ExpireAll, cleanup) of the same cache
            {"run": "^TestC08Linearizable$", "name": "C08Linearizable-for-C10", "n": {"quick": 12000, "thorough": 60000}},
            {"fuzz": "^FuzzC10ExpiryBounds$", "fuzztime": {"thorough": "45s"}, "tiers": ("thorough",), "timeout": {"quick": 300, "thorough": 600}},
        ],
    },
    "C11": {
        "level": "exploration",
        "technique": "model-based stateful property testing on a fake clock: cleanup cycles invoked one by one through a hook (exact model) and the real janitor goroutine (banded model)",
        "design_ref": "DESIGN.md section 6 C11",
        "text": "Histories of writes (no / short / long / negative explicit TTL), deletes, ExpireAll, entries arriving through "
                "Restore, same-shard masses of hundreds of entries and clock jumps around the job interval and "
                "DeleteExpiredAfter (explicit or default) are generated for finite and Unlimited TimeToLive on all backends. "
                "Hook driver: a cycle at instant t removes exactly the entries with E!=0 and E < t - DeleteExpiredAfter; "
                "real janitor: an entry is missing only if E < now - d, and is gone if E < now - i - d, it was written more than "
                "i ago and the cache is older than i. Len, Walk and a Read of every key are compared. Sampled search.",
        "note": "No assumption about the phase of the janitor's cycles, only that consecutive cycles are one interval apart "
                "and the first one comes within one interval (false alarm 22).",
        "assumptions": ["no eviction limit exceeded when a cycle runs", "consecutive janitor cycles are DeleteExpiredJobInterval apart, the first within one interval of creation"],
        "jobs": [
            # "as long as no eviction limit is exceeded": memory soft limits set but not exceeded
            {"run": "^TestC12MemLimitNotExceeded$", "name": "C12MemLimitNotExceeded-for-C11", "n": {"quick": 300, "thorough": 3000}},
            {"run": "^TestC11Janitor$", "n": {"quick": 10000, "thorough": 100000}},
            {"run": "^TestC11FailoverOwnedBackend$", "n": {"quick": 3000, "thorough": 30000}},
        ],
    },
    "C12": {
        "level": "exploration",
        "technique": "property-based testing of eviction cycles (hook-invoked and real janitor, fake clock) against amount and rank oracles",
        "design_ref": "DESIGN.md section 6 C12",
        "text": "Populations, access histories (fresh reads at generated instants / with generated counts, ties included), "
                "limits, fractions, strategies and EvictionNeeded scripts are generated; after each real cleanup cycle the "
                "survivors are compared with: no breach => nothing removed; count breach => CountSoftLimit*(1-f) within one "
                "entry; other breach => n*f within one; max metric(removed) <= min metric(kept); cache_evict == removed; "
                "nothing disappears between ticks. Sampled search. Also: memory soft limits that are configured but not exceeded (process with a heap high-water mark above the limit, runtime.MemStats sampled around every cycle) must evict nothing.",
        "note": "Rank metric is the model's (expiry / last fresh read instant / fresh read count); never-expiring entries under "
                "MostExpired and expired reads under LRU/LFU are excluded by construction (rank not stated).",
        "assumptions": ["SysMemSoftLimit not exercised (it calls debug.FreeOSMemory)"],
        "jobs": [
            # a memory soft limit that is configured but not exceeded (heap high-water mark above it) evicts nothing
            {"run": "^TestC12MemLimitNotExceeded$", "n": {"quick": 400, "thorough": 4000}},
            {"run": "^TestC12Eviction$", "n": {"quick": 6000, "thorough": 60000}},
            # LFU rank under truly parallel serves (real goroutines, outside a bubble)
            {"run": "^TestC12LFUParallel$", "n": {"quick": 40, "thorough": 400}},
        ],
    },
    "C13": {
        "level": "exploration",
        "technique": "round-trip property testing (Dump/Restore chains) with multiset equality over Walk",
        "design_ref": "DESIGN.md section 6 C13",
        "text": "Entry sets of 0-300 entries with keys of differing lengths, nil/zero/populated gob-registered values and mixed "
                "expiry are relayed through chains of 1-4 Dump/Restore hops over all ShardedMap/SyncMap pairings and "
                "ShardedMapOf[V] for three value types; every hop must report the entry count and reproduce the Walk multiset "
                "(key, DeepEqual value, expiry) and Read results. Sampled search.",
        "note": "Trusts encoding/gob and reflect.DeepEqual; walk order is whatever the source produces.",
        "assumptions": ["values come from a pool registered once per process with cache.GobRegister"],
        "jobs": [
            {"run": "^TestC13DumpRestore$", "n": {"quick": 5000, "thorough": 25000}},
            # a Dump that is the last use of its cache, while the garbage collector runs
            {"run": "^TestC07WrapperCollected$", "name": "C07WrapperCollected-for-C13", "n": {"quick": 60, "thorough": 600}},
            {"fuzz": "^FuzzC13DumpRestore$", "fuzztime": {"thorough": "60s"}, "tiers": ("thorough",), "timeout": {"quick": 300, "thorough": 600}},
        ],
    },
    "C14": {
        "level": "fault_enumeration",
        "technique": "property-based testing through an in-process RoundTripper with injected transport faults and complete enumeration of truncation offsets; gob types hash laws evaluated in fresh processes",
        "design_ref": "DESIGN.md section 6 C14",
        "text": "Named cache sets on both sides and C13-style entry sets are generated; the importer's Transport calls the "
                "exporter's Export() handler in-process and injects per name: rewritten typesHash, non-200 with a valid body, "
                "RoundTrip error, body read error; one small dump per case is additionally truncated at every byte offset. "
                "The hash laws (order, repetition and process independence; sensitivity to an added type) are checked by "
                "re-executing the test binary once per generated registration order.",
        "note": "'Same in every process' is checked across fresh processes of this build on this machine only.",
        "assumptions": ["exporter and importer live in one process and share GobTypesHash; a mismatch is simulated by rewriting the typesHash query parameter"],
        "jobs": [
            {"run": "^TestC14Transfer$", "n": {"quick": 600, "thorough": 6000}, "shrinktime": "30s"},
            # a real HTTP round trip over the loopback interface with dumps up to about a megabyte
            {"run": "^TestC14RealHTTP$", "n": {"quick": 60, "thorough": 600}, "shrinktime": "20s"},
            {"run": "^TestC14HashLaws$", "n": {"quick": 60, "thorough": 600}},
            {"run": "^TestC14LateRegistration$", "n": {"quick": 40, "thorough": 300}},
        ],
    },
    "C15": {
        "level": "fault_enumeration",
        "technique": "model-based property testing of label/key incidence structures with the failing Delete position enumerated completely per structure; recovery (retry) oracle",
        "design_ref": "DESIGN.md section 6 C15",
        "text": "Incidence structures (several cache names, several caches per name, keys with several labels, labels sharing "
                "keys, repeated labelling, duplicate label arguments) are generated; the final InvalidateByLabels is executed "
                "once fault-free and once for EVERY Delete position failing, each followed by a fault-free retry. Oracle: "
                "completeness, precision and count against the incidence model and the caches' real content; on failure no "
                "panic, the injected error, count of removed entries, and nothing lost after the retry.",
        "note": "With more than one cache name the order in which names are processed follows Go map iteration, so a given "
                "position number maps to different logical deletes between executions; all positions are still enumerated in "
                "every execution. Keys passed to AddLabels are poisoned after the call.",
        "assumptions": ["deleters are real ShardedMap/SyncMap behind a counting fault wrapper"],
        "jobs": [
            {"run": "^TestC15Labels$", "n": {"quick": 4000, "thorough": 30000}},
            # labels carrying thousands of keys, colliding unlabelled partner, odd contexts
            {"run": "^TestC15ManyKeys$", "n": {"quick": 300, "thorough": 3000}},
        ],
    },
    "C16": {
        "level": "exploration",
        "technique": "enumeration of all operation pairs plus random generated concurrent client programs, executed free-running under the Go race detector (log-growth oracle)",
        "design_ref": "DESIGN.md section 6 C16",
        "text": "Every unordered pair of public operations of every subject (3 backends x 3 eviction strategies, the Failover "
                "variants, InvalidationIndex, Invalidator) is executed as a two-goroutine program under -race; random programs of "
                "2-6 goroutines follow. The race detector writes its report synchronously, so growth of the GORACE log while a "
                "program runs attributes the race to that program; the signature is the normalised pair of racing library "
                "functions. A runtime fault (concurrent map access) kills the process and is reported with its output.",
        "note": "Only executed accesses are judged (dynamic detection); no claim about schedules that were not produced. "
                "Controlled scheduling is deliberately not used here: hand-offs would add happens-before edges and hide races.",
        "assumptions": ["Go race detector soundness for the executed accesses"],
        "jobs": [
            {"run": "^TestC16Pairs$", "race": True, "n": {"quick": 1, "thorough": 1}, "env": {"VERIF_C16_INSTANCES": 3},
             "shards": {"quick": 1, "thorough": 1}},
            {"run": "^TestC16Random$", "race": True, "n": {"quick": 500, "thorough": 2500},
             "shards": {"quick": 2, "thorough": 16}},
            # several instances side by side (package-level state) and big caches (>= 33000 entries)
            {"run": "^TestC16Scale$", "race": True, "n": {"quick": 6, "thorough": 24}, "shards": {"quick": 1, "thorough": 4}},
        ],
    },
    "C17": {
        "level": "exploration",
        "technique": "property-based testing of generated call timelines on a fake clock with real goroutine contention; exact acceptance specification",
        "design_ref": "DESIGN.md section 6 C17",
        "text": "1-12 caller goroutines sleep to generated fake instants (many share an instant, others land 1ns before/at/after "
                "the interval boundary) and call Invalidate; the exact acceptance rule per instant, exact-once in-order "
                "execution of every callback per accepted call, non-interleaving of runs, and the error identities are "
                "checked. Sampled search.",
        "note": "Callbacks take zero fake time (they must not park while the Invalidator mutex is held: mutex waits are not "
                "durable blocks in a synctest bubble). Contention at a shared instant is scheduled by the Go runtime.",
        "assumptions": ["callbacks do not block"],
        "jobs": [
            {"run": "^TestC17Invalidator$", "n": {"quick": 15000, "thorough": 100000}},
            {"run": "^TestC17RealTime$", "n": {"quick": 40, "thorough": 150}, "shrinktime": "10s"},
            # an accepted run that ends in a callback's panic still counts for the spacing
            {"run": "^TestC17PanickingCallback$", "n": {"quick": 1000, "thorough": 10000}},
        ],
    },
    "C18": {
        "level": "exploration",
        "technique": "model-based accounting: generated sequential histories and generated call-out schedules with a counting StatsTracker compared with the harness's own operation log",
        "design_ref": "DESIGN.md section 6 C18",
        "text": "(a) C07-style generated histories on every backend with a counting tracker: each of hit, miss, expired, write, "
                "delete must equal the reference model's count. (b) C02-style generated schedules with faults and trackers on "
                "the frontend, its failure cache and the real backend: build, failed, refreshed, failure-cache writes and the "
                "real backend's read/write/delete totals must equal the counts in the wrapper's log at quiescence. "
                "(c) free-running concurrent workloads: totals vs. per-goroutine operation counts. Sampled search. Also: a custom backend built on the exported Trait helpers with the tracker attached through Trait.Stat, and key alphabets with equal 64-bit hashes.",
        "note": "cache_refreshed is specified as 'stale re-stores': the oracle accepts any count between the successful and the "
                "attempted re-stores (they differ only when the re-store's backend write was made to fail).",
        "assumptions": ["tracker callbacks never block (rule R1)"],
        "jobs": [
            {"run": "^TestC18Backend$", "n": {"quick": 10000, "thorough": 100000}},
            {"run": "^TestC18Failover$", "n": {"quick": 6000, "thorough": 40000}},
            {"run": "^TestC18Concurrent$", "n": {"quick": 6000, "thorough": 40000}},
            # a custom backend built on the exported Trait / TraitOf helpers, tracker attached through Trait.Stat
            {"run": "^TestC18TraitBackend$", "n": {"quick": 5000, "thorough": 60000}},
        ],
    },
}

HOOK_COMMITS = ["a54259f"]

# property -> reason, for properties not claimed
NOT_APPLICABLE = {}
